---------------------------- MODULE YPathsSearch ----------------------------
(***************************************************************************)
(* The search of the yaml-paths tool (property C07).                       *)
(*                                                                         *)
(* OPERATIONAL, one definition per code unit, the `seen_anchors` list      *)
(* threaded through the traversal exactly as the code threads it:          *)
(*   SearchAnchor   Searches.search_anchor        common/searches.py:126-176*)
(*   SeqLoop        search_for_paths, list arm    yaml_paths.py:403-487    *)
(*   MapLoop        search_for_paths, hash arm    490-628                  *)
(*   SetLoop        search_for_paths, set arm     651-689                  *)
(*   YSeqLoop /     yield_children                268-371                  *)
(*   YMapLoop                                                              *)
(*   ExprTerms      get_search_term               691-727                  *)
(*   Render         the build_path / tmp_path string building of both      *)
(*                  functions and escape_path_section (yamlpath.py:1017)   *)
(* Search(d, T, O) is the sequence of results in yield order, each         *)
(*   [id    the position the result designates (a value position; for a    *)
(*          key-name match the position held under that key),              *)
(*    steps the path as the code builds it: key / idx / anc steps,         *)
(*    kind  "value" | "key" | "ref" (anchor-name match) | "leaf" (a child  *)
(*          listed by the expansion of a matched parent),                  *)
(*    of    the matched position the result stands for (= id unless        *)
(*          expanded)].                                                    *)
(*                                                                         *)
(* DECLARATIVE, from the tool's usage text (README "yaml-paths", CHANGES   *)
(* 2.1.1, 2.2.0) and property C07:                                         *)
(*   Matching(d, T, O)  the set of positions a search must report          *)
(*   Expected(d, T, O)  the same with --expand applied                     *)
(*   StepsTo / Printed / ReResolve  the path of a position, its printed    *)
(*                  text, and what that text selects (YQuery.Sel)          *)
(*                                                                         *)
(* T (terms)  = [inv, op, term]                                            *)
(* O (options)= [vals, keys, refs, ka, va, expand]:                        *)
(*   vals/keys  search_values / search_keys   (-i: T/F, -k: T/T, -K: F/T)  *)
(*   refs       --refnames (search_anchors)                                *)
(*   ka / va    include_key_aliases / include_value_aliases                *)
(*              (-A: F/F, -Y default: T/F, -y: F/T, -l: T/T)               *)
(*   expand     --expand                                                   *)
(* YData documents carry anchors on value positions only (an anchored      *)
(* scalar and its aliases); anchored keys and merge keys are outside this  *)
(* model (the harness judges curated documents of that kind by relations). *)
(***************************************************************************)
EXTENDS YQuery

\* Design variants.  The default (PinnedDefects = {}) is the repaired source (fix: commits dcbc53b, 989f2f4,
\* 5669cab); a member of PinnedDefects restores the pinned behaviour of that place, so that both the defective
\* and the repaired design can be model-checked:
\*   "set-in-seq"                 a Set held by a list is not descended into but compared as if it were a scalar
\*   "expand-set"                 yield_children has no Set arm: a Set below an expanded parent is listed as one leaf
\*   "alias-after-covered-anchor" the children of a parent matched by name (no --expand) are skipped without
\*                                recording their anchors
CONSTANT PinnedDefects
Pinned(c) == c \in PinnedDefects

Opts(vals, keys, refs, ka, va, expand) ==
  [vals |-> vals, keys |-> keys, refs |-> refs, ka |-> ka, va |-> va, expand |-> expand]
Terms(inv, op, term) == [inv |-> inv, op |-> op, term |-> term]

(***************************************************************************)
(* Expression -> terms (get_search_term): the expression is parsed as the  *)
(* search segment "[*EXPR]"; result [ok, inv, op, term].                   *)
(***************************************************************************)
OpStart == {"=", "^", "$", "%", ">", "<", "~"}      \* PathSearchMethods.is_operator on the first symbol, or "!"
ExprTerms(expr) ==
  LET bad == [ok |-> FALSE, inv |-> FALSE, op |-> "", term |-> ""] IN
  IF expr = "" \/ Ch(expr, 1) \notin (OpStart \cup {"!"}) THEN bad
  ELSE IF Len(expr) <= 1 THEN bad
  ELSE LET p == Parse("[*" \o expr \o "]", "auto", TRUE) IN
       IF p.out # "done" \/ Len(p.segs) = 0 \/ p.segs[1].ty # "SEARCH" THEN bad
       ELSE [ok |-> TRUE, inv |-> p.segs[1].inv, op |-> p.segs[1].op, term |-> p.segs[1].term]
\* how a user writes terms as an expression (a RegEx term between delimiters)
Expr(T) == (IF T.inv THEN "!" ELSE "") \o T.op \o (IF T.op = "=~" THEN "/" \o T.term \o "/" ELSE T.term)

(***************************************************************************)
(* The match table of a document under given terms: every comparison the   *)
(* search can make (Searches.search_matches with the inversion applied),   *)
(* computed once.                                                          *)
(*   val[i]  scalar position i against the expression                      *)
(*   key[i]  the key under which position i is held (parent is a hash)     *)
(*   ref[a]  anchor name a                                                 *)
(*   ival / ikey / iref: some comparison of that family lies in a corner   *)
(*   the documentation leaves open (YCompare.Silent)                       *)
(***************************************************************************)
ScalarIds(d) == {i \in 1..Len(d) : d[i].k = "s"}
KeyedIds(d)  == {i \in 2..Len(d) : d[d[i].par].k = "map"}
AnchorNames(d) == {d[i].anchor : i \in {x \in 1..Len(d) : d[x].anchor # ""}}
KeyOf(d, i) == d[d[i].par].keys[ChildPos(d, i)]
KeyHay(d, i) == Hay(KeyOf(d, i).t, KeyOf(d, i).v)
Hit(T, hay) == Cond(Matches(T.op, T.term, hay), T.inv)

\* H(T, hay) / Sl(T, hay): the comparison and its "documentation is silent" flag (a model may pass memoised versions)
TabWith(d, T, H(_, _), Sl(_, _)) ==
  [val  |-> [i \in ScalarIds(d) |-> H(T, ScalarHay(d, i))],
   key  |-> [i \in KeyedIds(d) |-> H(T, KeyHay(d, i))],
   ref  |-> [a \in AnchorNames(d) |-> H(T, Hay("str", a))],
   \* pinned "set-in-seq" only: a Set met as a list element is compared as if it were a scalar (its Python
   \* text): never equal to a term of the vocabulary, so only the inversion decides
   setv |-> T.inv,
   ival |-> \E i \in ScalarIds(d) : Sl(T, ScalarHay(d, i)),
   ikey |-> \E i \in KeyedIds(d) : Sl(T, KeyHay(d, i)),
   iref |-> \E a \in AnchorNames(d) : Sl(T, Hay("str", a))]
SilentT(T, hay) == Silent(T.op, T.term, hay)
Tab(d, T) == TabWith(d, T, Hit, SilentT)

HasSet(d) == \E s \in 1..Len(d) : d[s].k = "set"
InSet(d, i) == i # Root /\ d[d[i].par].k = "set"
\* Which entries a search under options O can consult: val[i] when values are searched or i is a Set member,
\* key[i] with -k/-K, ref[a] with --refnames, setv when values are searched.  Two terms whose tables agree on
\* those entries give the same search (MC_PathsSearch groups the vocabulary by them).

(***************************************************************************)
(* Paths                                                                   *)
(***************************************************************************)
Step(ty, v) == [ty |-> ty, v |-> v]
\* escape_path_section incl. the leading-slash rule for dot notation
EscSection(s, sepc) == LET e == EscapeSection(s, sepc) IN IF sepc # "/" /\ StartsWith(e, "/") THEN "\\" \o e ELSE e

RECURSIVE RenderAcc(_, _, _)
RenderAcc(steps, sepc, acc) ==
  IF Len(steps) = 0 THEN acc
  ELSE LET s == steps[1]
           txt == IF s.ty = "key"
                  THEN (IF acc # "" THEN acc \o sepc ELSE IF sepc = "/" THEN "/" ELSE "") \o EscSection(s.v, sepc)
                  ELSE (IF acc = "" /\ sepc = "/" THEN "/" ELSE acc) \o "["
                       \o (IF s.ty = "idx" THEN s.v ELSE "&" \o EscSection(s.v, sepc)) \o "]"
       IN RenderAcc(Tail(steps), sepc, txt)
Render(steps, sepc) == RenderAcc(steps, sepc, "")          \* the text handed to YAMLPath(...)

\* str(YAMLPath(text)): the unescaped parse re-stringified under the inferred separator
Printed(steps, sepc) ==
  LET raw == Render(steps, sepc)  p == Parse(raw, "auto", FALSE) IN
  IF p.out = "done" THEN Str(p.segs, p.sep) ELSE raw

\* the step under which position i hangs from its parent, and the whole path of i
StepOf(d, i) ==
  LET p == d[d[i].par] pos == ChildPos(d, i) IN
  IF p.k = "map" THEN Step("key", p.keys[pos].v)
  ELSE IF p.k = "set" THEN Step("key", d[i].v)
  ELSE IF d[i].anchor # "" THEN Step("anc", d[i].anchor) ELSE Step("idx", NatStr(pos - 1))
RECURSIVE StepsTo(_, _)
StepsTo(d, i) == IF i = Root THEN <<>> ELSE Append(StepsTo(d, d[i].par), StepOf(d, i))

\* the places a printed path may designate: the position itself, or - named by its anchor inside
\* a list - every place of that list holding the same anchored node
Places(d, i) ==
  IF i # Root /\ d[d[i].par].k = "seq" /\ d[i].anchor # ""
  THEN SortIds({j \in {d[d[i].par].kids[x] : x \in 1..Len(d[d[i].par].kids)} : d[j].anchor = d[i].anchor})
  ELSE <<i>>

ReResolve(d, steps, sepc) ==
  LET txt == Printed(steps, sepc)  q == Parse(txt, "auto", TRUE) IN
  IF q.out # "done" THEN [txt |-> txt, err |-> "parse", ids |-> <<>>]
  ELSE LET r == Sel(d, q.segs) IN [txt |-> txt, err |-> r.err, ids |-> FlatIds(r.res)]
Resolves(d, i, sepc) == LET r == ReResolve(d, StepsTo(d, i), sepc) IN r.err = "" /\ r.ids = Places(d, i)

(***************************************************************************)
(* Searches.search_anchor.  Traversal state st = [seen, out, log]:         *)
(*   seen  anchor names met so far (seen_anchors)                          *)
(*   out   results yielded so far                                          *)
(*   log   the classification of every anchored node met, in call order    *)
(*         (the observable trace of the threaded state; bound by the       *)
(*         harness to the recorded calls of the real function)             *)
(***************************************************************************)
St0 == [seen |-> {}, out |-> <<>>, log |-> <<>>]
Yield(st, id, steps, kind, of) == [st EXCEPT !.out = Append(@, [id |-> id, steps |-> steps, kind |-> kind, of |-> of])]
Excluders == {"UNSEARCHABLE_ALIAS", "ALIAS_EXCLUDED"}
Matched == {"MATCH", "ALIAS_INCLUDED"}

SearchAnchor(name, m, st, refs, incl) ==
  IF name = "" THEN [r |-> "NO_ANCHOR", st |-> st]                                       \* 147-149
  ELSE LET isAlias == name \in st.seen                                                   \* 151-154
           r == IF ~refs THEN (IF isAlias THEN "UNSEARCHABLE_ALIAS" ELSE "UNSEARCHABLE_ANCHOR")   \* 156-161
                ELSE IF isAlias /\ ~incl THEN "ALIAS_EXCLUDED"                           \* 163-165
                ELSE IF m.ref[name] THEN (IF isAlias THEN "ALIAS_INCLUDED" ELSE "MATCH") \* 167-175
                ELSE "NO_MATCH"
       IN [r |-> r, st |-> [st EXCEPT !.seen = @ \cup {name}, !.log = Append(@, <<name, r>>)]]

(***************************************************************************)
(* yield_children                                                          *)
(***************************************************************************)
RECURSIVE YieldChildren(_, _, _, _, _, _, _)
RECURSIVE YSeqLoop(_, _, _, _, _, _, _, _)
RECURSIVE YMapLoop(_, _, _, _, _, _, _, _)
RECURSIVE YSetLoop(_, _, _, _, _, _, _, _)
YConts == IF Pinned("expand-set") THEN {"map", "seq"} ELSE {"map", "seq", "set"}     \* 316, 358

YSeqLoop(d, x, j, steps, st, m, O, of) ==                                                \* 288-324
  IF j > Len(d[x].kids) THEN st
  ELSE LET e == d[x].kids[j]
           sa == SearchAnchor(d[e].anchor, m, st, O.refs, O.va)
           tp == Append(steps, IF sa.r = "NO_ANCHOR" THEN Step("idx", NatStr(j - 1)) ELSE Step("anc", d[e].anchor))
           st2 == IF ~O.va /\ sa.r \in Excluders THEN sa.st                              \* 312-314
                  ELSE IF d[e].k \in YConts THEN YieldChildren(d, e, tp, sa.st, m, O, of)
                  ELSE Yield(sa.st, e, tp, "leaf", of)
       IN YSeqLoop(d, x, j + 1, steps, st2, m, O, of)

YMapLoop(d, x, j, steps, st, m, O, of) ==                                                \* 326-366
  IF j > Len(d[x].kids) THEN st
  ELSE LET v == d[x].kids[j]
           tp == Append(steps, Step("key", d[x].keys[j].v))
           \* the key's own anchor is classified first (339-341); YData keys carry none
           sv == SearchAnchor(d[v].anchor, m, st, O.refs, O.va)                          \* 342-344
           st2 == IF ~O.va /\ sv.r \in Excluders THEN sv.st                              \* 350-356
                  ELSE IF d[v].k \in YConts THEN YieldChildren(d, v, tp, sv.st, m, O, of)
                  ELSE Yield(sv.st, v, tp, "leaf", of)                                   \* (pinned: a Set is listed as itself)
       IN YMapLoop(d, x, j + 1, steps, st2, m, O, of)

YSetLoop(d, x, j, steps, st, m, O, of) ==                                                \* the Set arm (repaired source)
  IF j > Len(d[x].kids) THEN st
  ELSE LET e == d[x].kids[j]
           sa == SearchAnchor(d[e].anchor, m, st, O.refs, O.ka)
           st2 == IF ~O.ka /\ sa.r \in Excluders THEN sa.st
                  ELSE Yield(sa.st, e, Append(steps, Step("key", d[e].v)), "leaf", of)
       IN YSetLoop(d, x, j + 1, steps, st2, m, O, of)

YieldChildren(d, x, steps, st, m, O, of) ==
  IF d[x].k = "seq" THEN YSeqLoop(d, x, 1, steps, st, m, O, of)
  ELSE IF d[x].k = "map" THEN YMapLoop(d, x, 1, steps, st, m, O, of)
  ELSE IF d[x].k = "set" /\ ~Pinned("expand-set") THEN YSetLoop(d, x, 1, steps, st, m, O, of)
  ELSE Yield(st, x, steps, "leaf", of)                                                   \* the last arm: a scalar

(***************************************************************************)
(* search_for_paths                                                        *)
(***************************************************************************)
RECURSIVE SearchAt(_, _, _, _, _, _)
RECURSIVE SeqLoop(_, _, _, _, _, _, _)
RECURSIVE MapLoop(_, _, _, _, _, _, _)
RECURSIVE SetLoop(_, _, _, _, _, _, _)

\* _record_anchors (repaired source): the anchors beneath a node whose children will not be searched are put on
\* record - search_anchor with its default arguments (no --refnames), key before value, value before its children
RECURSIVE RecordAnchors(_, _, _, _)
RECURSIVE RecordLoop(_, _, _, _, _)
RecordLoop(d, x, j, st, m) ==
  IF j > Len(d[x].kids) THEN st
  ELSE LET e == d[x].kids[j] IN
       RecordLoop(d, x, j + 1, RecordAnchors(d, e, SearchAnchor(d[e].anchor, m, st, FALSE, FALSE).st, m), m)
RecordAnchors(d, x, st, m) == IF d[x].k = "s" THEN st ELSE RecordLoop(d, x, 1, st, m)

\* a match by name: the node itself, or (expansion) its children
MatchedParent(d, v, tp, st, m, O, kind) ==
  IF O.expand THEN YieldChildren(d, v, tp, st, m, O, v)
  ELSE Yield(IF Pinned("alias-after-covered-anchor") THEN st ELSE RecordAnchors(d, v, st, m), v, tp, kind, v)

SeqLoop(d, x, j, steps, st, m, O) ==                                                     \* 409-487
  IF j > Len(d[x].kids) THEN st
  ELSE LET e == d[x].kids[j]
           sa == SearchAnchor(d[e].anchor, m, st, O.refs, O.va)                          \* 411-413
           tp == Append(steps, IF sa.r = "NO_ANCHOR" THEN Step("idx", NatStr(j - 1)) ELSE Step("anc", d[e].anchor))
           st2 == IF sa.r = "ALIAS_EXCLUDED" THEN sa.st                                  \* 430-431
                  ELSE IF sa.r \in Matched THEN MatchedParent(d, e, tp, sa.st, m, O, "ref")   \* 433-449
                  ELSE IF d[e].k \in (IF Pinned("set-in-seq") THEN {"seq", "map"} ELSE {"seq", "map", "set"})
                       THEN SearchAt(d, e, tp, sa.st, m, O)                              \* 451-470
                  ELSE IF O.vals THEN                                                    \* 471-487 (pinned: a Set lands here)
                    (IF sa.r = "UNSEARCHABLE_ALIAS" /\ ~O.va THEN sa.st
                     ELSE IF (IF d[e].k = "s" THEN m.val[e] ELSE m.setv) THEN Yield(sa.st, e, tp, "value", e)
                     ELSE sa.st)
                  ELSE sa.st
       IN SeqLoop(d, x, j + 1, steps, st2, m, O)

MapLoop(d, x, j, steps, st, m, O) ==                                                     \* 500-628
  IF j > Len(d[x].kids) THEN st
  ELSE LET v == d[x].kids[j]
           tp == Append(steps, Step("key", d[x].keys[j].v))
           sv == SearchAnchor(d[v].anchor, m, st, O.refs, O.va)                          \* 506-508: value first, "to have it on record"
           st2 == IF O.keys /\ m.key[v] THEN MatchedParent(d, v, tp, sv.st, m, O, "key")      \* 516-567 (keys carry no anchors here)
                  ELSE IF sv.r = "ALIAS_EXCLUDED" THEN sv.st                             \* 570-571
                  ELSE IF sv.r \in Matched THEN MatchedParent(d, v, tp, sv.st, m, O, "ref")   \* 573-589
                  ELSE IF d[v].k \in {"seq", "map", "set"} THEN SearchAt(d, v, tp, sv.st, m, O)   \* 591-611
                  ELSE IF O.vals THEN                                                    \* 612-628
                    (IF sv.r = "UNSEARCHABLE_ALIAS" /\ ~O.va THEN sv.st
                     ELSE IF m.val[v] THEN Yield(sv.st, v, tp, "value", v) ELSE sv.st)
                  ELSE sv.st
       IN MapLoop(d, x, j + 1, steps, st2, m, O)                                         \* (630-649: merge keys, outside YData)

SetLoop(d, x, j, steps, st, m, O) ==                                                     \* 657-689: neither -K nor -i is consulted
  IF j > Len(d[x].kids) THEN st
  ELSE LET e == d[x].kids[j]
           tp == Append(steps, Step("key", d[e].v))
           sa == SearchAnchor(d[e].anchor, m, st, O.refs, O.ka)
           st2 == IF sa.r \in Matched THEN Yield(sa.st, e, tp, "ref", e)
                  ELSE IF m.val[e] THEN Yield(sa.st, e, tp, "value", e) ELSE sa.st
       IN SetLoop(d, x, j + 1, steps, st2, m, O)

SearchAt(d, x, steps, st, m, O) ==
  IF d[x].k = "seq" THEN SeqLoop(d, x, 1, steps, st, m, O)
  ELSE IF d[x].k = "map" THEN MapLoop(d, x, 1, steps, st, m, O)
  ELSE IF d[x].k = "set" THEN SetLoop(d, x, 1, steps, st, m, O)
  ELSE st                                                  \* a scalar document: no arm, nothing is yielded

SearchRun(d, m, O) == SearchAt(d, Root, <<>>, St0, m, O)   \* final traversal state
SearchM(d, m, O) == SearchRun(d, m, O).out
Search(d, T, O) == SearchM(d, Tab(d, T), O)
Ids(rs) == [j \in 1..Len(rs) |-> rs[j].id]

(***************************************************************************)
(* Declarative: which positions a search must report.                      *)
(*   "-k search key names in addition to values and array elements",       *)
(*   "-K only search key names", "-a also search the names of &anchor and  *)
(*   *alias references"; "-A include only original matching key and value  *)
(*   anchors, discarding all aliased keys and values"; "-y / -l include    *)
(*   matching value aliases"; CHANGES 2.1.1: "when a node is matched by    *)
(*   name, any children are ignored because they will have already been    *)
(*   yielded as the parent node's value".  Members of a Set are searched   *)
(*   in every mode (they are keys and elements at once).                   *)
(***************************************************************************)
KeyHit(d, m, O, i) == O.keys /\ i \in KeyedIds(d) /\ m.key[i]
RefHit(d, m, O, i) == O.refs /\ d[i].anchor # "" /\ m.ref[d[i].anchor]
ValHit(d, m, O, i) == d[i].k = "s" /\ m.val[i] /\ (O.vals \/ d[d[i].par].k = "set")
AliasOK(d, O, i) == d[i].alias = 0 \/ O.va            \* an aliased repeat counts only when value aliases are asked for
Own(d, m, O, i) == KeyHit(d, m, O, i) \/ ((RefHit(d, m, O, i) \/ ValHit(d, m, O, i)) /\ AliasOK(d, O, i))
ByName(d, m, O, a) == KeyHit(d, m, O, a) \/ (RefHit(d, m, O, a) /\ AliasOK(d, O, a))
Covered(d, m, O, i) == \E a \in 2..(i - 1) : IsUnder(d, i, a) /\ ByName(d, m, O, a)

MatchingM(d, m, O) == {i \in 2..Len(d) : Own(d, m, O, i) /\ ~Covered(d, m, O, i)}
Matching(d, T, O) == MatchingM(d, Tab(d, T), O)

\* --expand: "expand matching parent nodes to list all permissible child leaf nodes"
RECURSIVE SetOfSeq(_)
SetOfSeq(s) == IF Len(s) = 0 THEN {} ELSE {s[1]} \cup SetOfSeq(Tail(s))
ExpandOf(d, O, i) == IF d[i].k = "s" THEN {i} ELSE {l \in SetOfSeq(LeavesOf(d, i)) : AliasOK(d, O, l)}
ExpectedOf(d, O, mt) == IF O.expand THEN UNION {ExpandOf(d, O, i) : i \in mt} ELSE mt      \* mt = MatchingM(d, m, O)
ExpectedM(d, m, O) == ExpectedOf(d, O, MatchingM(d, m, O))
Expected(d, T, O) == ExpectedM(d, Tab(d, T), O)

(***************************************************************************)
(* Design theorems, per (document, match table, options)                   *)
(***************************************************************************)
\* rs = the results of SearchM(d, m, O) and mt = MatchingM(d, m, O), passed in so that a model evaluates each once
NoRepeats(rs) == \A a, b \in 1..Len(rs) : a # b => rs[a].id # rs[b].id
SoundCompleteR(d, O, rs, mt) == NoRepeats(rs) /\ SetOfSeq(Ids(rs)) = ExpectedOf(d, O, mt)
PathsCanonicalR(d, rs) == \A j \in 1..Len(rs) : rs[j].steps = StepsTo(d, rs[j].id)
ExpandsExactlyR(d, O, rs, mt) ==
  /\ {rs[j].of : j \in 1..Len(rs)} \subseteq mt
  /\ \A i \in mt : {rs[j].id : j \in {x \in 1..Len(rs) : rs[x].of = i}} = (IF O.expand THEN ExpandOf(d, O, i) ELSE {i})
SoundComplete(d, m, O) == SoundCompleteR(d, O, SearchM(d, m, O), MatchingM(d, m, O))
PathsCanonical(d, m, O) == PathsCanonicalR(d, SearchM(d, m, O))
ExpandsExactly(d, m, O) == ExpandsExactlyR(d, O, SearchM(d, m, O), MatchingM(d, m, O))

(***************************************************************************)
(* Where the PINNED designs leave the declarative definition (each was     *)
(* confirmed on the pinned code and repaired).  Defined on the document,   *)
(* the table and the options - never on Search's outcome.  With            *)
(* PinnedDefects = {} no class applies and T2/T4 must hold everywhere.     *)
(***************************************************************************)
\* a Set held in a list is not descended into (451 tests only lists and hashes)
SetInSeq(d) == \E s \in 2..Len(d) : d[s].k = "set" /\ d[d[s].par].k = "seq"
\* the expansion of a matched parent lists a Set below it as one leaf (yield_children has no Set arm)
ExpandSetR(d, O, mt) == O.expand /\ \E i \in mt : d[i].k # "s" /\ \E s \in SubtreeIds(d, i) : d[s].k = "set"
\* the children of a parent matched by name are skipped without recording their anchors, so an alias of an
\* anchor defined below that parent is taken for the original
AliasAfterCovered(d, m, O) ==
  ~O.expand /\ ~O.va /\ \E i \in 2..Len(d) : d[i].alias # 0 /\ Covered(d, m, O, d[i].alias)
DevClassR(d, m, O, mt) ==
  IF Pinned("set-in-seq") /\ SetInSeq(d) THEN "set-in-seq"
  ELSE IF Pinned("expand-set") /\ ExpandSetR(d, O, mt) THEN "expand-set"
  ELSE IF Pinned("alias-after-covered-anchor") /\ AliasAfterCovered(d, m, O) THEN "alias-after-covered-anchor"
  ELSE ""
DevClass(d, m, O) == DevClassR(d, m, O, MatchingM(d, m, O))

\* corners the usage text leaves open: comparisons YCompare calls Silent; --onlykeynames together with
\* --refnames or with Set members (are those "key names"?)
InfoCase(d, m, O) ==
  \/ ((O.vals \/ \E s \in 1..Len(d) : d[s].k = "set") /\ m.ival)
  \/ (O.keys /\ m.ikey)
  \/ (O.refs /\ m.iref)
  \/ (~O.vals /\ O.refs /\ AnchorNames(d) # {})
  \/ (~O.vals /\ \E s \in 1..Len(d) : d[s].k = "set" /\ Len(d[s].kids) > 0)
=============================================================================
