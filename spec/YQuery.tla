------------------------------- MODULE YQuery -------------------------------
(***************************************************************************)
(* Selection semantics of YAML Path segments over YData documents.         *)
(*                                                                         *)
(* Sel(d, segs) is the sequence of selected positions, in the order and    *)
(* multiplicity the documented segment semantics give (README "Supported   *)
(* YAML Path Segments", CHANGES, handler docstrings; DESIGN Appendix A),   *)
(* written one operator per segment kind and shaped like the handlers of   *)
(* yamlpath/processor.py so that every rule can be traced to its source:   *)
(*   KeyStep      _get_nodes_by_key          processor.py:936-1057         *)
(*   IndexStep /  _get_nodes_by_index        1059-1172                     *)
(*   SliceStep                                                             *)
(*   AnchorStep   _get_nodes_by_anchor       1174-1264                     *)
(*   SearchStep   _get_nodes_by_search       1309-1509                     *)
(*   MatchAllStep _get_nodes_by_match_all*   2005-2241                     *)
(*   TraverseStep _get_nodes_by_traversal    1833-2003                     *)
(*   SelFrom      _get_required_nodes        2243-2348                     *)
(*                                                                         *)
(* A cursor is a real position (id > 0) or a virtual list of positions     *)
(* (id = 0; what a slice yields).  A step result is                        *)
(*   [err, res, info]:  err = "" or "yperr" (the YAML Path error family),  *)
(*   res = cursors in order, info = TRUE when a rule was applied that the  *)
(*   documentation leaves open (the case is then informational).           *)
(***************************************************************************)
EXTENDS YCompare, YPathSyntax, YKwParams

Cur(i) == [id |-> i, virt |-> <<>>, nm |-> ""]
Virt(ids) == [id |-> 0, virt |-> ids, nm |-> ""]
NameCur(txt) == [id |-> 0, virt |-> <<>>, nm |-> txt]     \* what [name()] yields: a key or index, not a position
Res(cs, info) == [err |-> "", res |-> cs, info |-> info, dead |-> FALSE]
None == Res(<<>>, FALSE)
NoneInfo == Res(<<>>, TRUE)
YPErr == [err |-> "yperr", res |-> <<>>, info |-> FALSE, dead |-> FALSE]
Cat(a, b) == IF a.err # "" THEN a ELSE IF b.err # "" THEN [b EXCEPT !.info = @ \/ a.info]     \* an error met after an open corner inherits its mark
             ELSE [err |-> "", res |-> a.res \o b.res, info |-> a.info \/ b.info, dead |-> a.dead \/ b.dead]
WithInfo(r) == [r EXCEPT !.info = TRUE]

IsVirt(c) == c.id = 0
IsName(c) == c.id = 0 /\ c.nm # ""
KindOf(d, c) == IF IsVirt(c) THEN "seq" ELSE d[c.id].k
Elems(d, c) == IF IsVirt(c) THEN c.virt ELSE d[c.id].kids       \* element / value / member ids
ScalarHay(d, i) == Hay(d[i].t, d[i].v)
IdsToCurs(ids) == [j \in 1..Len(ids) |-> Cur(ids[j])]
\* flattened positions designated by a result (virtual results by their members)
RECURSIVE FlatIds(_)
FlatIds(cs) == IF Len(cs) = 0 THEN <<>> ELSE (IF IsVirt(cs[1]) THEN cs[1].virt ELSE <<cs[1].id>>) \o FlatIds(Tail(cs))


\* position (1-based) of Python index n in a list of length len; 0 = out of range
PyIndex(n, len) == IF n >= 0 THEN (IF n < len THEN n + 1 ELSE 0) ELSE (IF 0 - n <= len THEN len + n + 1 ELSE 0)
\* Python slice [lo:hi] of a list of length len, as 1-based positions
SliceLo(lo, len) == IF lo < 0 THEN (IF len + lo < 0 THEN 0 ELSE len + lo) ELSE (IF lo > len THEN len ELSE lo)
SlicePositions(lo, hi, len) == LET a == SliceLo(lo, len) b == SliceLo(hi, len) IN
                               IF a >= b THEN <<>> ELSE [j \in 1..(b - a) |-> a + j]

\* node_is_aoh(data, accept_nulls=True) (nodes.py:565-591)
IsAoHNulls(d, ids) == \A j \in 1..Len(ids) : d[ids[j]].k = "map" \/ (d[ids[j]].k = "s" /\ d[ids[j]].t = "null")
StrKeyPos(n, k) == {j \in 1..Len(n.keys) : n.keys[j].t = "str" /\ n.keys[j].v = k}
IntKeyPos(n, v) == {j \in 1..Len(n.keys) : n.keys[j].t = "int" /\ PyIntVal(n.keys[j].v) = v}

\* comparison against a position: containers are outside the comparison's documented domain
MatchNode(d, op, term, i) ==
  IF d[i].k = "s" THEN [m |-> Matches(op, term, ScalarHay(d, i)), info |-> Silent(op, term, ScalarHay(d, i))]
  ELSE [m |-> FALSE, info |-> TRUE]
Cond(m, inv) == (m /\ ~inv) \/ (inv /\ ~m)

ValTextOf(n) == IF n.t = "str" THEN n.v ELSE LitStr(TypedHay(Hay(n.t, n.v)))
RECURSIVE SegStep(_, _, _, _, _)
RECURSIVE SelFrom(_, _, _, _)
RECURSIVE CatMap(_, _, _, _, _, _)       \* concatenation of SegStep over a list of positions
RECURSIVE CatSel(_, _, _, _)             \* concatenation of SelFrom over a list of cursors
RECURSIVE LeavesOf(_, _)
RECURSIVE TravFilter(_, _, _, _)
RECURSIVE SearchSeqAcc(_, _, _, _, _, _)
RECURSIVE CollFold(_, _, _, _, _)

CatMap(d, ids, j, segs, i, tl) ==
  IF j > Len(ids) THEN None ELSE Cat(SegStep(d, Cur(ids[j]), segs, i, tl), CatMap(d, ids, j + 1, segs, i, tl))
CatSel(d, curs, segs, i) ==
  IF Len(curs) = 0 THEN None ELSE Cat(SelFrom(d, curs[1], segs, i), CatSel(d, Tail(curs), segs, i))

(***************************************************************************)
(* KEY                                                                     *)
(***************************************************************************)
KeyStep(d, c, k, segs, i, tl) ==
  LET kind == KindOf(d, c) IN
  IF kind = "map" THEN
    LET n == d[c.id] sp == StrKeyPos(n, k) IN
    IF sp # {} THEN Res(<<Cur(n.kids[CHOOSE j \in sp : TRUE])>>, FALSE)
    ELSE IF IsPyInt(k) THEN
      LET ip == IntKeyPos(n, PyIntVal(k)) IN
      IF ip # {} THEN Res(<<Cur(n.kids[CHOOSE j \in ip : TRUE])>>, FALSE) ELSE None
    ELSE None
  ELSE IF kind = "seq" THEN
    LET es == Elems(d, c) IN
    IF IsPyInt(k) THEN
      LET p == PyIndex(PyIntVal(k), Len(es)) IN IF p = 0 THEN None ELSE Res(<<Cur(es[p])>>, FALSE)
    ELSE IF ~tl THEN None
    ELSE CatMap(d, es, 1, segs, i, tl)             \* Array-of-Hashes pass-through
  ELSE IF kind = "set" THEN
    \* a member is named by its text: a string member by itself, any other scalar by str(value)
    LET es == Elems(d, c)
        hit == {j \in 1..Len(es) : (d[es[j]].t = "str" /\ d[es[j]].v = k)
                                   \/ (d[es[j]].t \notin {"str", "null"} /\ ValTextOf(d[es[j]]) = k)} IN
    IF hit = {} THEN None ELSE Res(<<Cur(es[CHOOSE j \in hit : \A x \in hit : j <= x])>>, FALSE)
  ELSE None

(***************************************************************************)
(* INDEX and SLICE                                                         *)
(***************************************************************************)
IndexStep(d, c, v) ==
  LET kind == KindOf(d, c) IN
  IF kind = "seq" THEN
    LET es == Elems(d, c) p == PyIndex(PyIntVal(v), Len(es)) IN
    IF p = 0 THEN None ELSE Res(<<Cur(es[p])>>, FALSE)
  ELSE IF kind = "set" THEN YPErr
  ELSE None

KeyText(kr) == kr.v
SliceStep(d, c, v) ==
  LET kind == KindOf(d, c)
      cp == IndexFrom(v, ":", 1)
      a == SubSeq(v, 1, cp - 1)  b == SubSeq(v, cp + 1, Len(v)) IN
  IF kind = "seq" THEN
    IF ~IsPyInt(a) \/ ~IsPyInt(b) THEN YPErr
    ELSE LET es == Elems(d, c) lo == PyIntVal(a) hi == PyIntVal(b) IN
      IF lo = hi /\ PyIndex(lo, Len(es)) # 0
      THEN Res(<<Virt(<<es[PyIndex(lo, Len(es))]>>)>>, FALSE)        \* "identical bounds = that element"
      ELSE LET ps == SlicePositions(lo, hi, Len(es)) IN
           \* an empty slice still yields one (empty) virtual result: documentation silent
           Res(<<Virt([j \in 1..Len(ps) |-> es[ps[j]]])>>, Len(ps) = 0)
  ELSE IF kind = "map" THEN
    LET n == d[c.id]
        hit == {j \in 1..Len(n.keys) : LexLE(a, KeyText(n.keys[j])) /\ LexLE(KeyText(n.keys[j]), b)} IN
    \* keys compared as text; non-string keys are a silent corner
    Res(IdsToCurs(SortIds({n.kids[j] : j \in hit})), \E j \in 1..Len(n.keys) : n.keys[j].t # "str")
  ELSE IF kind = "set" THEN
    LET es == Elems(d, c)
        hit == {j \in 1..Len(es) : LexLE(a, d[es[j]].v) /\ LexLE(d[es[j]].v, b)} IN
    Res(IdsToCurs(SortIds({es[j] : j \in hit})), \E j \in 1..Len(es) : d[es[j]].t # "str")
  ELSE None

(***************************************************************************)
(* ANCHOR                                                                  *)
(***************************************************************************)
AnchorStep(d, c, name) ==
  LET kind == KindOf(d, c) IN
  IF IsVirt(c) THEN NoneInfo              \* elements of a virtual list are wrappers without anchors
  ELSE IF kind \in {"seq", "map", "set"} THEN
    LET es == Elems(d, c) IN Res(IdsToCurs(SortIds({es[j] : j \in {x \in 1..Len(es) : d[es[x]].anchor = name}})), FALSE)
  ELSE None

(***************************************************************************)
(* SEARCH                                                                  *)
(***************************************************************************)
\* descendant search from a position: the positions the attribute, read as a YAML Path, selects
DescSel(d, c, attr) ==
  LET p == Parse(attr, "auto", TRUE) IN
  IF p.out # "done" THEN YPErr ELSE SelFrom(d, c, p.segs, 1)

SearchSeqAcc(d, es, j, sg, aoh, acc) ==
  IF j > Len(es) THEN acc
  ELSE LET e == es[j] n == d[e] IN
    LET verdict ==
      IF sg.attr = "." THEN
        LET mn == MatchNode(d, sg.op, sg.term, e)
            haskey == aoh /\ n.k = "map" /\ StrKeyPos(n, sg.term) # {} IN
        \* [.=key] over an Array-of-Hashes: records having that key (CHANGES 3.6.0);
        \* with other operators, or for a record compared as a value, the documentation is silent
        [err |-> "", m |-> haskey \/ mn.m, info |-> (n.k # "s") \/ mn.info \/ (haskey /\ sg.op # "=")]
      ELSE IF n.k = "map" /\ StrKeyPos(n, sg.attr) # {} THEN
        LET mn == MatchNode(d, sg.op, sg.term, n.kids[CHOOSE x \in StrKeyPos(n, sg.attr) : TRUE]) IN
        [err |-> "", m |-> mn.m, info |-> mn.info]
      ELSE LET ds == DescSel(d, Cur(e), sg.attr) IN
        IF ds.err # "" THEN [err |-> ds.err, m |-> FALSE, info |-> FALSE]
        ELSE IF Len(ds.res) = 0 THEN [err |-> "", m |-> FALSE, info |-> ds.info]
        ELSE IF IsVirt(ds.res[1]) THEN [err |-> "", m |-> FALSE, info |-> TRUE]
        ELSE LET mn == MatchNode(d, sg.op, sg.term, ds.res[1].id) IN
             \* only the first descendant is consulted for list elements (processor.py:1375-1385)
             [err |-> "", m |-> mn.m, info |-> mn.info \/ ds.info \/ Len(ds.res) > 1]
    IN IF verdict.err # "" THEN YPErr
       ELSE SearchSeqAcc(d, es, j + 1, sg, aoh,
              [acc EXCEPT !.res = IF Cond(verdict.m, sg.inv) THEN Append(@, Cur(e)) ELSE @,
                          !.info = @ \/ verdict.info])

SearchStep(d, c, sg, tl) ==
  LET kind == KindOf(d, c) IN
  IF kind = "seq" THEN
    (IF ~tl THEN None
     ELSE LET es == Elems(d, c) IN SearchSeqAcc(d, es, 1, sg, IsAoHNulls(d, es), None))
  ELSE IF kind = "map" THEN
    LET n == d[c.id] IN
    IF sg.attr = "." THEN
      LET hit == {j \in 1..Len(n.keys) : Cond(Matches(sg.op, sg.term, Hay(n.keys[j].t, n.keys[j].v)), sg.inv)} IN
      Res(IdsToCurs(SortIds({n.kids[j] : j \in hit})),
          \E j \in 1..Len(n.keys) : Silent(sg.op, sg.term, Hay(n.keys[j].t, n.keys[j].v)))
    ELSE IF StrKeyPos(n, sg.attr) # {} THEN
      LET kid == n.kids[CHOOSE x \in StrKeyPos(n, sg.attr) : TRUE] mn == MatchNode(d, sg.op, sg.term, kid) IN
      \* the attribute child itself is the result: code only (Appendix A "mirror")
      Res(IF Cond(mn.m, sg.inv) THEN <<Cur(kid)>> ELSE <<>>, TRUE)
    ELSE
      LET ds == DescSel(d, c, sg.attr) IN
      IF ds.err # "" THEN YPErr
      ELSE LET real == SelectSeq(ds.res, LAMBDA x : ~IsVirt(x))
               ms == [j \in 1..Len(real) |-> MatchNode(d, sg.op, sg.term, real[j].id)]
               yes == IF sg.inv THEN (Len(real) = 0 \/ \E j \in 1..Len(real) : ~ms[j].m)
                      ELSE \E j \in 1..Len(real) : ms[j].m IN
           Res(IF yes THEN <<c>> ELSE <<>>, TRUE)
  ELSE IF kind = "set" THEN
    LET es == Elems(d, c)
        hit == {j \in 1..Len(es) : Cond(Matches(sg.op, sg.term, ScalarHay(d, es[j])), sg.inv)} IN
    Res(IdsToCurs(SortIds({es[j] : j \in hit})), \E j \in 1..Len(es) : Silent(sg.op, sg.term, ScalarHay(d, es[j])))
  ELSE \* a scalar (or null) is compared itself: code only
    LET mn == MatchNode(d, sg.op, sg.term, c.id) IN
    Res(IF Cond(mn.m, sg.inv) THEN <<c>> ELSE <<>>, TRUE)

(***************************************************************************)
(* MATCH_ALL  ( * )                                                        *)
(***************************************************************************)
MatchAllStep(d, c, segs, i) ==
  LET kind == KindOf(d, c) es == Elems(d, c) IN
  IF i = Len(segs) THEN
    (IF kind \in {"map", "seq", "set"} THEN Res(IdsToCurs(es), FALSE) ELSE None)
  ELSE IF kind \in {"map", "seq"} THEN
    LET rs == [j \in 1..Len(es) |-> SegStep(d, Cur(es[j]), segs, i + 1, TRUE)] IN
    IF \E j \in 1..Len(es) : rs[j].err # "" THEN YPErr
    ELSE Res(IdsToCurs(SortIds({es[j] : j \in {x \in 1..Len(es) : Len(rs[x].res) > 0}})),
             \E j \in 1..Len(es) : rs[j].info)
  ELSE IF kind = "set" THEN NoneInfo      \* filtered "*" over a set: documentation silent
  ELSE None

(***************************************************************************)
(* TRAVERSE  ( ** )                                                        *)
(***************************************************************************)
LeavesOf(d, x) ==   \* leaves at or below x, in document order; empty containers have none
  LET n == d[x] IN
  IF n.k = "s" THEN <<x>> ELSE Flatten([j \in 1..Len(n.kids) |-> LeavesOf(d, n.kids[j])])

\* every position y at or below x (through maps and sequences) from which segment i+1 matches
\* (evaluated without list pass-through); y once per documented semantics
TravFilter(d, x, segs, i) ==
  LET direct == SegStep(d, Cur(x), segs, i + 1, FALSE)
      n == d[x]
      below == IF n.k \in {"map", "seq"}
               THEN [j \in 1..Len(n.kids) |-> TravFilter(d, n.kids[j], segs, i)] ELSE <<>>
      belowErr == \E j \in 1..Len(below) : below[j].err # ""
  IN IF direct.err # "" \/ belowErr THEN YPErr
     ELSE [err |-> "", dead |-> FALSE, res |-> (IF Len(direct.res) > 0 THEN <<Cur(x)>> ELSE <<>>) \o Flatten([j \in 1..Len(below) |-> below[j].res]),
           info |-> direct.info \/ (\E j \in 1..Len(below) : below[j].info)]

TraverseStep(d, c, segs, i) ==
  IF IsVirt(c) THEN NoneInfo
  ELSE IF i = Len(segs) THEN Res(IdsToCurs(LeavesOf(d, c.id)), FALSE)
  ELSE IF segs[i + 1].ty = "TRAVERSE" THEN YPErr
  ELSE TravFilter(d, c.id, segs, i)

(***************************************************************************)
(* SEARCH KEYWORDS  (yamlpath/common/keywordsearches.py; property C13)     *)
(*   has_child 77-329, name 331-383, max/min 385-795, parent 797-883,      *)
(*   distinct/unique 886-1177; parameter splitting searchkeywordterms.py   *)
(* Declarative definitions; `info` marks collections outside the stated    *)
(* domain (mixed kinds, null attribute values, containers as values, ...). *)
(***************************************************************************)
ValText(n) == IF n.t = "str" THEN n.v ELSE LitStr(TypedHay(Hay(n.t, n.v)))
NumKind(n) == n.k = "s" /\ (n.t \in {"int", "float"} \/ (n.t = "str" /\ PyLit(n.v).ty \in {"int", "float"}))
TextKind(n) == n.k = "s" /\ n.t = "str" /\ PyLit(n.v).ty = "raw"
SameKind(d, ids) == (\A j \in 1..Len(ids) : NumKind(d[ids[j]])) \/ (\A j \in 1..Len(ids) : TextKind(d[ids[j]]))
\* a > b  /  a < b  /  a = b between two scalar nodes, as the scans compare them
Gt(d, a, b) == Matches(">", ValText(d[b]), Hay(d[a].t, d[a].v))
Lt(d, a, b) == Matches("<", ValText(d[b]), Hay(d[a].t, d[a].v))
SameVal(d, a, b) == IF NumKind(d[a]) /\ NumKind(d[b]) THEN NumEQ(TypedHay(Hay(d[a].t, d[a].v)), TypedHay(Hay(d[b].t, d[b].v)))
                    ELSE d[a].t = d[b].t /\ ValText(d[a]) = ValText(d[b])
AttrKid(d, m, p) == LET n == d[m] IN IF n.k = "map" /\ StrKeyPos(n, p) # {} THEN n.kids[CHOOSE x \in StrKeyPos(n, p) : TRUE] ELSE 0
Depth(d, i) == Cardinality({a \in 1..Len(d) : a # i /\ IsUnder(d, i, a)})
RECURSIVE Ancestor(_, _, _)
Ancestor(d, i, n) == IF n = 0 THEN i ELSE Ancestor(d, d[i].par, n - 1)
NameOf(d, i) ==   \* the key / index / member under which position i is held
  IF d[i].par = 0 THEN "" ELSE
  LET p == d[d[i].par] pos == ChildPos(d, i) IN
  IF p.k = "map" THEN "k:" \o p.keys[pos].t \o ":" \o p.keys[pos].v
  ELSE IF p.k = "seq" THEN "i:" \o NatStr(pos - 1) ELSE "m:" \o d[i].v

\* members (ids) of a collection and, per member, the id of the value compared (0 = none)
KwMembers(d, c, p) ==
  LET kind == KindOf(d, c) es == Elems(d, c) IN
  IF kind = "seq" /\ IsAoHNulls(d, es) THEN [j \in 1..Len(es) |-> [m |-> es[j], v |-> AttrKid(d, es[j], p)]]
  ELSE IF kind = "map" THEN [j \in 1..Len(es) |-> [m |-> es[j], v |-> AttrKid(d, es[j], p)]]
  ELSE [j \in 1..Len(es) |-> [m |-> es[j], v |-> IF d[es[j]].k = "s" /\ d[es[j]].t = "null" THEN 0 ELSE es[j]]]

KwStep(d, c, sg) ==
  LET split == KPSplit(sg.v)          \* the parameter splitter machine (YKwParams)
      ps == split.params np == Len(ps) kind == KindOf(d, c) es == Elems(d, c)
      p == IF np > 0 THEN ps[1] ELSE ""
      aoh == kind = "seq" /\ IsAoHNulls(d, es)
  IN
  IF IsName(c) THEN NoneInfo
  ELSE IF ~split.ok THEN YPErr         \* unbalanced demarcation in the parameters
  ELSE IF sg.kw = "has_child" /\ np = 1 /\ p = "" THEN NoneInfo
  ELSE IF sg.kw = "has_child" THEN
    (IF np # 1 THEN YPErr
     ELSE IF Ch(p, 1) = "&" THEN
        \* CHANGES 3.6.x: "&NAME ... switches the function to match against Anchor/Alias names" (keywordsearches.py:222-336);
        \* key anchors and merge keys are outside the node table
        (LET nm == Tail(p)
             HasA(i) == \E j \in 1..Len(d[i].kids) : d[d[i].kids[j]].anchor = nm IN
         IF nm = "" \/ IsVirt(c) THEN NoneInfo
         ELSE IF kind = "map" THEN Res(IF Cond(HasA(c.id), sg.inv) THEN <<c>> ELSE <<>>, FALSE)
         ELSE IF kind = "seq" THEN
            (IF \A j \in 1..Len(es) : d[es[j]].k = "map" \/ (d[es[j]].k = "s" /\ d[es[j]].t = "null")      \* node_is_aoh(accept_nulls)
             THEN Res(IdsToCurs(SortIds({es[j] : j \in {x \in 1..Len(es) : d[es[x]].k = "map" /\ Cond(HasA(es[x]), sg.inv)}})), FALSE)
             ELSE Res(IF Cond(HasA(c.id), sg.inv) THEN <<c>> ELSE <<>>, FALSE))
         ELSE NoneInfo)
     ELSE IF kind = "map" THEN Res(IF Cond(StrKeyPos(d[c.id], p) # {}, sg.inv) THEN <<c>> ELSE <<>>, FALSE)
     ELSE IF kind = "seq" THEN
        (IF \A j \in 1..Len(es) : d[es[j]].k = "map"                  \* node_is_aoh without nulls
         THEN Res(IdsToCurs(SortIds({es[j] : j \in {x \in 1..Len(es) : Cond(StrKeyPos(d[es[x]], p) # {}, sg.inv)}})), IsVirt(c))
         ELSE Res(IF Cond(\E j \in 1..Len(es) : d[es[j]].k = "s" /\ d[es[j]].t = "str" /\ d[es[j]].v = p, sg.inv) THEN <<c>> ELSE <<>>, TRUE))
     ELSE IF kind = "s" /\ d[c.id].t = "null" THEN Res(IF sg.inv THEN <<c>> ELSE <<>>, TRUE)
     ELSE YPErr)
  ELSE IF sg.kw = "name" THEN
    (IF np > 1 \/ sg.inv THEN YPErr
     ELSE IF IsVirt(c) \/ d[c.id].par = 0 THEN NoneInfo
     ELSE Res(<<NameCur(NameOf(d, c.id))>>, FALSE))
  ELSE IF sg.kw = "parent" THEN
    (IF np > 1 \/ sg.inv THEN YPErr
     ELSE IF np = 1 /\ ~IsPyInt(p) THEN YPErr
     ELSE IF IsVirt(c) THEN NoneInfo
     ELSE LET n == IF np = 1 THEN PyIntVal(p) ELSE 1 IN
          IF n > Depth(d, c.id) THEN YPErr
          ELSE IF n < 1 THEN Res(<<c>>, FALSE) ELSE Res(<<Cur(Ancestor(d, c.id, n))>>, FALSE))
  ELSE IF sg.kw \in {"max", "min", "unique", "distinct"} THEN
    (IF np > 1 THEN YPErr
     ELSE IF sg.kw = "distinct" /\ sg.inv THEN YPErr
     ELSE IF kind \in {"s", "set"} THEN
        \* a scalar (or a set) is its own maximum / minimum / only value and does not invert
        Res(IF sg.inv THEN <<>> ELSE <<c>>, kind = "set")
     ELSE IF (aoh \/ kind = "map") /\ np = 0 THEN YPErr
     ELSE IF kind = "seq" /\ ~aoh /\ np = 1 THEN YPErr
     ELSE IF kind = "map" /\ StrKeyPos(d[c.id], p) # {} /\ (\E j \in 1..Len(es) : d[es[j]].k # "map") THEN YPErr
     ELSE
       LET ms == KwMembers(d, c, p)
           withv == SelectSeq(ms, LAMBDA r : r.v # 0)
           vals == [j \in 1..Len(withv) |-> withv[j].v]
           outside == \/ IsVirt(c)
                      \/ ~SameKind(d, vals)
                      \/ ((aoh \/ kind = "map") /\ (\E j \in 1..Len(ms) : LET a == AttrKid(d, ms[j].m, p) IN a # 0 /\ d[a].k = "s" /\ d[a].t = "null"))
           best(r) == IF sg.kw = "max" THEN \A j \in 1..Len(withv) : ~Gt(d, withv[j].v, r.v)
                      ELSE \A j \in 1..Len(withv) : ~Lt(d, withv[j].v, r.v)
           count(r) == Cardinality({j \in 1..Len(withv) : SameVal(d, withv[j].v, r.v)})
           first(r) == \A j \in 1..Len(withv) : SameVal(d, withv[j].v, r.v) => withv[j].m >= r.m
           sel == IF sg.kw \in {"max", "min"} THEN
                    (IF sg.inv THEN {ms[j].m : j \in {x \in 1..Len(ms) : ms[x].v = 0 \/ ~best(ms[x])}}
                     ELSE {withv[j].m : j \in {x \in 1..Len(withv) : best(withv[x])}})
                  ELSE IF sg.kw = "unique" THEN
                    {withv[j].m : j \in {x \in 1..Len(withv) : IF sg.inv THEN count(withv[x]) > 1 ELSE count(withv[x]) = 1}}
                  ELSE {withv[j].m : j \in {x \in 1..Len(withv) : first(withv[x])}}
       IN \* for max/min null values are skipped; for unique/distinct over a plain list a null is a value like any other
          IF sg.kw \in {"unique", "distinct"} /\ kind = "seq" /\ ~aoh /\ (\E j \in 1..Len(ms) : ms[j].v = 0)
          THEN [err |-> "", res |-> <<>>, info |-> TRUE, dead |-> FALSE]
          ELSE Res(IdsToCurs(SortIds(sel)), outside))
  ELSE NoneInfo

(***************************************************************************)
(* COLLECTORS  ( (expr), +(expr), -(expr), &(expr) ; processor.py           *)
(* 1511-1831 ).  A collector gathers what its expression selects from the  *)
(* current node into one virtual list; the operator-bearing collectors     *)
(* that follow combine into it: + concatenates, - removes the members      *)
(* whose value the right-hand expression yields (a value reached under a   *)
(* Hash key counts as the pair, never as the bare value), & keeps the      *)
(* members whose value it yields.  Only collections of scalars are         *)
(* decided; anything else is informational.                                *)
(***************************************************************************)
ExprSel(d, c, expr) ==
  LET p == Parse(expr, "auto", TRUE) IN
  IF p.out # "done" THEN YPErr ELSE SelFrom(d, c, p.segs, 1)
\* members a collector expression contributes: a single list result is opened up
CollMembers(d, r) ==
  IF Len(r.res) = 1 /\ ~IsVirt(r.res[1]) /\ d[r.res[1].id].k = "seq" THEN d[r.res[1].id].kids
  ELSE FlatIds(r.res)
CollScalars(d, ids) == \A j \in 1..Len(ids) : d[ids[j]].k = "s"
\* values the right-hand side of - offers (list elements and Set members; not Hash values)
MinusVals(d, ids) == SelectSeq(ids, LAMBDA x : d[x].par # 0 /\ d[d[x].par].k # "map")
SameScalar(d, a, b) == IF NumKind(d[a]) /\ NumKind(d[b]) THEN NumEQ(TypedHay(Hay(d[a].t, d[a].v)), TypedHay(Hay(d[b].t, d[b].v)))
                       ELSE d[a].t = d[b].t /\ d[a].v = d[b].v
CollFold(d, c, segs, j, acc) ==   \* acc = [err, ids, info, dead]; dead: some operand selected nothing
  IF j > Len(segs) \/ segs[j].ty # "COLLECTOR" \/ acc.err # "" THEN acc
  ELSE IF segs[j].cop = "" THEN [acc EXCEPT !.err = "yperr"]            \* adjoining collectors without an operator
  ELSE LET r == ExprSel(d, c, segs[j].v) IN
    IF r.err # "" THEN [acc EXCEPT !.err = "yperr"]
    ELSE LET rids == IF segs[j].cop = "+" THEN FlatIds(r.res) ELSE CollMembers(d, r)
             info == acc.info \/ r.info \/ ~CollScalars(d, rids) \/ (\E x \in 1..Len(r.res) : IsVirt(r.res[x]))
             ids == IF segs[j].cop = "+" THEN acc.ids \o rids
                    ELSE IF segs[j].cop = "-" THEN
                      SelectSeq(acc.ids, LAMBDA a : ~\E x \in 1..Len(MinusVals(d, rids)) : SameScalar(d, a, MinusVals(d, rids)[x]))
                    ELSE SelectSeq(acc.ids, LAMBDA a : \E x \in 1..Len(rids) : SameScalar(d, a, rids[x]))
         IN CollFold(d, c, segs, j + 1, [err |-> "", ids |-> ids, info |-> info, dead |-> acc.dead \/ r.dead \/ Len(r.res) = 0])
CollectorStep(d, c, segs, i) ==
  LET sg == segs[i] IN
  IF sg.cop # "" THEN Res(<<c>>, FALSE)            \* already folded into its predecessor
  ELSE IF IsVirt(c) THEN NoneInfo
  ELSE LET r == ExprSel(d, c, sg.v) IN
    IF r.err # "" THEN YPErr
    ELSE LET first == CollMembers(d, r)
             acc == CollFold(d, c, segs, i + 1, [err |-> "", ids |-> first, dead |-> r.dead \/ Len(r.res) = 0,
                                                  info |-> r.info \/ ~CollScalars(d, first) \/ (\E x \in 1..Len(r.res) : IsVirt(r.res[x]))])
         IN IF acc.err # "" THEN YPErr
            ELSE IF Len(acc.ids) = 0 THEN [None EXCEPT !.info = acc.info, !.dead = TRUE]
            ELSE [Res(<<Virt(acc.ids)>>, acc.info) EXCEPT !.dead = acc.dead]

(***************************************************************************)
(* dispatcher and required-match driver                                    *)
(***************************************************************************)
Supported(sg) == sg.ty \in {"KEY", "INDEX", "SLICE", "ANCHOR", "SEARCH", "MATCH_ALL", "TRAVERSE"}

SegStep(d, c, segs, i, tl) ==
  LET sg == segs[i] IN
  IF IsName(c) THEN NoneInfo
  ELSE IF sg.ty = "KEY" THEN KeyStep(d, c, sg.v, segs, i, tl)
  ELSE IF sg.ty = "INDEX" THEN IndexStep(d, c, sg.v)
  ELSE IF sg.ty = "SLICE" THEN SliceStep(d, c, sg.v)
  ELSE IF sg.ty = "ANCHOR" THEN AnchorStep(d, c, sg.v)
  ELSE IF sg.ty = "SEARCH" THEN SearchStep(d, c, sg, tl)
  ELSE IF sg.ty = "MATCH_ALL" THEN MatchAllStep(d, c, segs, i)
  ELSE IF sg.ty = "TRAVERSE" THEN
       (IF i > 1 /\ segs[i - 1].ty = "TRAVERSE" THEN YPErr ELSE TraverseStep(d, c, segs, i))
  ELSE IF sg.ty = "KEYWORD" THEN KwStep(d, c, sg)
  ELSE IF sg.ty = "COLLECTOR" THEN CollectorStep(d, c, segs, i)
  ELSE NoneInfo

\* `dead`: some partial match could not be extended by the next segment (a branch the
\* optional-match driver would try to create; required-match silently drops it)
SelFrom(d, c, segs, i) ==
  IF i > Len(segs) THEN Res(<<c>>, FALSE)
  ELSE LET st == SegStep(d, c, segs, i, TRUE) IN
       IF st.err # "" THEN st
       ELSE IF Len(st.res) = 0 THEN [st EXCEPT !.dead = TRUE]
       ELSE LET rest == CatSel(d, st.res, segs, i + 1) IN
            IF rest.err # "" THEN [rest EXCEPT !.info = @ \/ st.info] ELSE [rest EXCEPT !.info = @ \/ st.info, !.dead = @ \/ st.dead]

\* A null document answers nothing (processor.py:72-73, 127-131).
Sel(d, segs) ==
  IF d[Root].k = "s" /\ d[Root].t = "null" THEN None ELSE SelFrom(d, Cur(Root), segs, 1)

Names(cs) == SelectSeq([j \in 1..Len(cs) |-> cs[j].nm], LAMBDA x : x # "")
=============================================================================
