---------------------------- MODULE YQueryCases ----------------------------
(* The replayable form of one (document, path) evaluation, and the chunked writer
   shared by the generator models (MC_Query, MC_Keywords). *)
EXTENDS YQuery, Json, CSV, IOUtils, SequencesExt

(* ---- evaluation of one path ---- *)
RECURSIVE TypesOf(_)
TypesOf(p) == IF Len(p) = 0 THEN "" ELSE p[1].ty \o (IF Len(p) > 1 THEN "+" ELSE "") \o TypesOf(Tail(p))
Case(d, p) ==
  LET r == Sel(d, p) IN
  [dot |-> Write(p, "."), sl |-> Write(p, "/"), ty |-> TypesOf(p),
   cx |-> [j \in 1..Len(SelectSeq(p, LAMBDA s : s.ty = "COLLECTOR")) |-> SelectSeq(p, LAMBDA s : s.ty = "COLLECTOR")[j].v],
   err |-> r.err, n |-> Len(r.res), ids |-> FlatIds(r.res), dead |-> r.dead,
   \* collectors lie outside the segment list of C01: decided by the model (xinfo), informational for verdicts
   info |-> r.info \/ (\E j \in 1..Len(p) : p[j].ty = "COLLECTOR"), xinfo |-> r.info,
   names |-> Names(r.res),
   \* inverted max/min and inverted unique are defined as sets of members: order is not part of C13
   unordered |-> (Len(p) > 0 /\ p[Len(p)].ty = "KEYWORD" /\ p[Len(p)].inv),
   virt |-> \E j \in 1..Len(r.res) : IsVirt(r.res[j])]


\* Cases are written in chunks of ChunkSize per line: lines stay below the size at which
\* concurrent appends of TLC's workers could interleave.
ChunkSize == 10
RECURSIVE WriteChunks(_, _, _)
WriteChunks(dd, cs, from) ==
  IF from > Len(cs) THEN TRUE
  ELSE /\ CSVWrite("%1$s", <<ToJson([key |-> ToString(dd), doc |-> dd, cases |-> SubSeq(cs, from, IF from + ChunkSize - 1 > Len(cs) THEN Len(cs) ELSE from + ChunkSize - 1)])>>, IOEnv.CASES_OUT)
       /\ WriteChunks(dd, cs, from + ChunkSize)

=============================================================================
