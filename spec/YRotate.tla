------------------------------ MODULE YRotate ------------------------------
(***************************************************************************)
(* C19 - EYAML key rotation (yamlpath/commands/eyaml_rotate_keys.py:113-   *)
(* 200 driving yamlpath/eyaml/eyamlprocessor.py) as a step machine over    *)
(* the scalar positions of one YAML file.                                  *)
(*                                                                         *)
(* A document is  [slots, objs]:                                           *)
(*   slots[p] = [cont, ct, o]   the p-th scalar position in document order:*)
(*              the container holding it (an id), that container's type    *)
(*              ("map" | "seq") and the value object found there;          *)
(*   objs[o]  = [head, key, pt, anc, folded]   a value object (a CELL):    *)
(*              head   the first characters of its text,                   *)
(*              key    "old" | "new" | "other" (a third key pair) |        *)
(*                     "none" (not a token of the cipher),                 *)
(*              pt     the identity of its plaintext,                      *)
(*              anc    its anchor name ("" = none); positions that share   *)
(*                     one object are the anchor and its aliases,          *)
(*              folded it is a folded block scalar (">").                  *)
(* The state keeps the heap of value objects (Store allocates new ones),   *)
(* the binding position -> object, the control state of the loops and the  *)
(* bookkeeping the properties talk about.                                  *)
(*                                                                         *)
(* Pure functional core (DESIGN 2.2):  Expect(s) is the set of events the  *)
(* specification accepts in s (complete event records, so a rejection can  *)
(* name them), RStep(s, e) the successor (pc = "REJECT" when e is not      *)
(* accepted).  MC_YRotate uses RStep in Next, Trace_YRotate folds it over  *)
(* the events recorded from the real tool.                                 *)
(*                                                                         *)
(* Events, each bound to an observation of the real run (harness/props/    *)
(* c19.py):                                                                *)
(*   Find     find_eyaml_paths() yielded its next path        (:141)       *)
(*   Node     get_nodes(path) yielded a position; anc = its anchor (:145)  *)
(*            - SkipSeenAnchor when anc was seen before (:151-155)         *)
(*   Decrypt  the external command ran `decrypt` (:158-166)                *)
(*   Encrypt  the external command ran `encrypt` (:174-179)                *)
(*   Store    set_eyaml_value returned; `after` = the document then        *)
(*   Backup   copy2(file, file.bak)  (:189-194)                            *)
(*   Write    open(file, "w") + dump (:196-198)                            *)
(*   Exit     sys.exit(status) (:200)                                      *)
(***************************************************************************)
EXTENDS YText

CONSTANT FixedStore  \* TRUE : Store replaces every reference to the shared value (what the property demands)
                     \* FALSE: Store as Processor._update_node.recurse does it today (processor.py:2673-2737):
                     \*        a reference held by a sequence is replaced only when that sequence is the
                     \*        parent of the position being set

(* marker recognition, eyamlprocessor.py:379-395 *)
IsEyaml(text) == StartsWith(Replace(Replace(text, "\n", ""), " ", ""), "ENC[")
Enc(o) == o.enc          \* computed once per value object (RInit, StoreHeap) from its text
NewHead == "ENC[PKCS7,"  \* what the external command's output begins with
NewEnc == IsEyaml(NewHead)

MinOf(S) == CHOOSE x \in S : \A y \in S : x <= y

NPos(s)    == Len(s.doc.slots)
Slot(s, p) == s.doc.slots[p]
Obj(s, p)  == s.heap[s.bind[p]]
Obj0(s, p) == s.heap[s.doc.slots[p].o]      \* the heap only grows: the first Len(doc.objs) entries are the originals

RInit(doc, backup) ==
  [pc |-> "scan", doc |-> doc, backup |-> backup,
   heap |-> [i \in 1..Len(doc.objs) |-> [head |-> doc.objs[i].head, key |-> doc.objs[i].key, pt |-> doc.objs[i].pt,
                                          anc |-> doc.objs[i].anc, folded |-> doc.objs[i].folded, cell |-> i,
                                          enc |-> IsEyaml(doc.objs[i].head)]],
   bind |-> [p \in 1..Len(doc.slots) |-> doc.slots[p].o],
   cur |-> 0,        \* position the path generator stands at (0 = before the first)
   panc |-> "",      \* the anchor name the current path ends in ("[&name]"), "" when it ends in a key or an index
   last |-> 0,       \* last position get_nodes yielded for the current path
   tgt |-> 0,        \* position being rotated
   seen |-> {},      \* seen_anchors
   buf |-> 0, fmt |-> "",      \* decrypted plaintext and the output format chosen (:170-172)
   changed |-> FALSE, status |-> 0, backed |-> FALSE, written |-> FALSE,
   ndec |-> [i \in 1..Len(doc.objs) |-> 0], nenc |-> [i \in 1..Len(doc.objs) |-> 0]]

(* ---- the two lazy generators ---- *)
\* positions the current path still has to yield (eyamlprocessor.py:73-88: a sequence element that has an
\* anchor is addressed as [&anchor], which designates every element of that sequence with this anchor)
Pending(s) ==
  IF s.cur = 0 THEN {}
  ELSE IF s.panc = "" THEN (IF s.last = 0 THEN {s.cur} ELSE {})
  ELSE {p \in 1..NPos(s) : p > s.last /\ Slot(s, p).cont = Slot(s, s.cur).cont /\ Obj(s, p).anc = s.panc}
\* encrypted positions the path generator has not reached yet (evaluated on the document as it is now)
Ahead(s) == {p \in 1..NPos(s) : p > s.cur /\ Enc(Obj(s, p))}
ScanDone(s) == s.pc = "scan" /\ Pending(s) = {} /\ Ahead(s) = {}

(* ---- the observable view of the document: per position the identity class, key and plaintext ---- *)
ClassOf(bind, p) == MinOf({q \in 1..Len(bind) : bind[q] = bind[p]})
View(heap, bind) == [p \in 1..Len(bind) |-> [o |-> ClassOf(bind, p), key |-> heap[bind[p]].key, pt |-> heap[bind[p]].pt]]

(* ---- Store ---- *)
Rebound(s) ==
  LET t == s.tgt IN
  IF FixedStore THEN {p \in 1..NPos(s) : s.bind[p] = s.bind[t]}
  ELSE {p \in 1..NPos(s) : s.bind[p] = s.bind[t] /\ (Slot(s, p).ct = "map" \/ Slot(s, p).cont = Slot(s, t).cont)}
StoreHeap(s) == Append(s.heap, [head |-> NewHead, key |-> "new", pt |-> s.buf, anc |-> Obj(s, s.tgt).anc,
                                folded |-> Obj(s, s.tgt).folded, cell |-> Obj(s, s.tgt).cell, enc |-> NewEnc])
StoreBind(s) == [p \in 1..NPos(s) |-> IF p \in Rebound(s) THEN Len(s.heap) + 1 ELSE s.bind[p]]

(* ---- events accepted in s ---- *)
Expect(s) ==
  IF s.pc = "scan" THEN
       (IF Pending(s) # {}
          THEN {[e |-> "Node", pos |-> MinOf(Pending(s)), anc |-> Obj(s, MinOf(Pending(s))).anc]}
        ELSE IF Ahead(s) # {} THEN {[e |-> "Find"]}
        ELSE IF s.changed /\ s.backup /\ ~s.backed THEN {[e |-> "Backup"]}
        ELSE IF s.changed /\ ~s.written THEN {[e |-> "Write"]}
        ELSE {[e |-> "Exit", status |-> s.status]})
  ELSE IF s.pc = "dec" THEN
       LET o == Obj(s, s.tgt) IN
       {[e |-> "Decrypt", key |-> "old", ct |-> [key |-> o.key, pt |-> o.pt], ok |-> (o.key = "old"),
         pt |-> IF o.key = "old" THEN o.pt ELSE 0]}
  ELSE IF s.pc = "enc" THEN {[e |-> "Encrypt", key |-> "new", pt |-> s.buf, fmt |-> s.fmt, ok |-> TRUE]}
  ELSE IF s.pc = "store" THEN {[e |-> "Store", after |-> View(StoreHeap(s), StoreBind(s))]}
  ELSE {}

Apply(s, e) ==
  CASE e.e = "Find" ->
         LET p == MinOf(Ahead(s)) IN
         [s EXCEPT !.cur = p, !.last = 0,
                   !.panc = IF Slot(s, p).ct = "seq" THEN Obj(s, p).anc ELSE ""]
    [] e.e = "Node" ->
         IF e.anc # "" /\ e.anc \in s.seen
           THEN [s EXCEPT !.last = e.pos]                                         \* SkipSeenAnchor
           ELSE [s EXCEPT !.last = e.pos, !.tgt = e.pos, !.pc = "dec",
                          !.seen = IF e.anc = "" THEN @ ELSE @ \cup {e.anc}]
    [] e.e = "Decrypt" ->
         LET o == Obj(s, s.tgt) IN
         IF e.ok THEN [s EXCEPT !.pc = "enc", !.buf = o.pt, !.fmt = IF o.folded THEN "block" ELSE "string",
                                !.ndec[o.cell] = @ + 1]
         ELSE [s EXCEPT !.pc = "scan", !.status = 3]                              \* :163-166
    [] e.e = "Encrypt" -> [s EXCEPT !.pc = "store", !.nenc[Obj(s, s.tgt).cell] = @ + 1]
    [] e.e = "Store"   -> [s EXCEPT !.pc = "scan", !.heap = StoreHeap(s), !.bind = StoreBind(s), !.changed = TRUE,
                                    !.buf = 0, !.fmt = ""]
    [] e.e = "Backup"  -> [s EXCEPT !.backed = TRUE]
    [] e.e = "Write"   -> [s EXCEPT !.written = TRUE]
    [] e.e = "Exit"    -> [s EXCEPT !.pc = "Done"]

RStep(s, e) == IF e \in Expect(s) THEN Apply(s, e) ELSE [s EXCEPT !.pc = "REJECT"]

(* ---- what the property says (C19 statement), as predicates of a state ---- *)
Success(s) == s.pc = "Done" /\ s.status = 0
Secret0(s, p) == Enc(Obj0(s, p))
\* every encrypted value is under the new keys (and hence no longer under the old ones)
InvAllNew(s) == Success(s) => \A p \in 1..NPos(s) : Enc(Obj(s, p)) => Obj(s, p).key = "new"
\* ... with the plaintext it had; what was encrypted still is, what was not still is not
InvPlaintextKept(s) == Success(s) => \A p \in 1..NPos(s) : Obj(s, p).pt = Obj0(s, p).pt /\ Enc(Obj(s, p)) = Secret0(s, p)
\* values shared through an anchor are rotated once ...
InvOncePerCell(s) == Success(s) => \A c \in 1..Len(s.doc.objs) :
                        IF Enc(s.heap[c]) THEN s.ndec[c] = 1 /\ s.nenc[c] = 1 ELSE s.ndec[c] = 0 /\ s.nenc[c] = 0
\* ... and stay shared (and nothing else becomes shared); anchors keep their names
InvStillShared(s) == Success(s) => \A p, q \in 1..NPos(s) :
                        /\ (s.doc.slots[p].o = s.doc.slots[q].o) <=> (s.bind[p] = s.bind[q])
                        /\ Obj(s, p).anc = Obj0(s, p).anc
\* non-encrypted positions are never touched (in any state, whatever the status)
InvFrame(s) == \A p \in 1..NPos(s) : ~Secret0(s, p) => s.bind[p] = s.doc.slots[p].o
\* a file holding no encrypted value is neither rewritten nor backed up
InvNoSecretNoTouch(s) == (\A p \in 1..NPos(s) : ~Secret0(s, p)) => ~s.backed /\ ~s.written /\ ~s.changed
\* protocol order: the backup is taken before the file is opened for writing, only when asked for
InvBackupFirst(s) == (s.backed => s.backup /\ s.changed) /\ (s.written /\ s.backup => s.backed)
                     /\ (s.pc = "Done" => (s.written <=> s.changed))
\* only an old-key value is ever decrypted successfully; counts never exceed one per cell
InvAtMostOnce(s) == \A c \in 1..Len(s.doc.objs) : s.ndec[c] <= 1 /\ s.nenc[c] <= s.ndec[c]

Failing(s) ==
  IF ~InvFrame(s) THEN "Frame" ELSE IF ~InvNoSecretNoTouch(s) THEN "NoSecretNoTouch"
  ELSE IF ~InvBackupFirst(s) THEN "BackupFirst" ELSE IF ~InvAtMostOnce(s) THEN "AtMostOnce"
  ELSE IF ~InvAllNew(s) THEN "AllNew" ELSE IF ~InvPlaintextKept(s) THEN "PlaintextKept"
  ELSE IF ~InvOncePerCell(s) THEN "OncePerCell" ELSE IF ~InvStillShared(s) THEN "StillShared" ELSE ""
=============================================================================
