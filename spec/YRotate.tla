------------------------------ MODULE YRotate ------------------------------
(***************************************************************************)
(* C19 - EYAML key rotation (yamlpath/commands/eyaml_rotate_keys.py:113-   *)
(* 200 driving yamlpath/eyaml/eyamlprocessor.py) as a step machine over    *)
(* the scalar positions of the YAML files of ONE invocation.               *)
(*                                                                         *)
(* A document (one file) is  [slots, objs]:                                *)
(*   slots[p] = [cont, ct, o, vis, loc, canc]   the p-th scalar position   *)
(*              the path generator visits, in document order:              *)
(*              the container holding it (an id), that container's type    *)
(*              ("map" | "seq") and the value object found there;          *)
(*              canc = the anchor name of that container ("" = none).  A   *)
(*              container that is aliased elsewhere (`copy: *box`) is      *)
(*              visited once per reference: vis numbers the visits, and    *)
(*              loc = the first position that designates the same physical *)
(*              place (loc = p except on a later visit), so positions with *)
(*              one loc necessarily hold one object;                       *)
(*   objs[o]  = [head, key, pt, anc, folded, trail]   a value object       *)
(*              (a CELL):                                                  *)
(*              head   the first characters of its text,                   *)
(*              key    "old" | "new" | "other" (a third key pair) |        *)
(*                     "none" (not a token of the cipher),                 *)
(*              pt     the identity of its plaintext (> 0),                *)
(*              anc    its anchor name ("" = none); positions that share   *)
(*                     one object are the anchor and its aliases,          *)
(*              folded it is a folded block scalar (">"),                  *)
(*              trail  shape of the plaintext's end: "" (ends in a         *)
(*                     non-blank), "ws" (ends in white space), "allws"     *)
(*                     (nothing but white space), "empty".                 *)
(* The state is the invocation (files, --backup, exit status, index of the *)
(* file being processed, the closed files) plus the file being processed:  *)
(* its heap of value objects (Store allocates new ones), the binding       *)
(* position -> object, the control state of the loops (seen_anchors among  *)
(* them, which is PER FILE: eyaml_rotate_keys.py:119) and the bookkeeping  *)
(* the properties talk about.                                              *)
(*                                                                         *)
(* Pure functional core (DESIGN 2.2):  Expect(s) is the set of events the  *)
(* specification accepts in s (complete event records, so a rejection can  *)
(* name them), RStep(s, e) the successor (pc = "REJECT" when e is not      *)
(* accepted).  MC_YRotate uses RStep in Next, Trace_YRotate folds it over  *)
(* the events recorded from the real tool.                                 *)
(*                                                                         *)
(* Events, each bound to an observation of the real run (harness/props/    *)
(* c19.py):                                                                *)
(*   NextFile the loop loads its next YAML_FILE (:116-137); closes the     *)
(*            previous file and resets the per-file state                  *)
(*   Find     find_eyaml_paths() yielded its next path        (:141)       *)
(*   Node     get_nodes(path) yielded a position; anc = its anchor (:145)  *)
(*            - SkipSeenAnchor when anc was seen before (:151-155)         *)
(*   Decrypt  the external command ran `decrypt` (:158-166)                *)
(*   Encrypt  the external command ran `encrypt` (:174-179)                *)
(*   Store    set_eyaml_value returned; `after` = the document then        *)
(*   Backup   copy2(file, file.bak)  (:189-194)                            *)
(*   Write    open(file, "w") + dump (:196-198)                            *)
(*   Exit     sys.exit(status) (:200)                                      *)
(***************************************************************************)
EXTENDS YText

CONSTANTS
  FixedStore,  \* TRUE : Store replaces every reference to the shared value (what the property demands)
               \* FALSE: Store as Processor._update_node.recurse did it in the pinned code: a reference held by a
               \*        sequence is replaced only when that sequence is the parent of the position being set
  FixedOutput, \* TRUE : the plaintext the command printed is taken as it is (what the property demands)
               \* FALSE: as eyamlprocessor.py:167-173 reads it - .rstrip(): white space at the end of the plaintext
               \*        is lost, a plaintext of nothing but white space counts as a failed decryption
  ResetSeen,   \* TRUE : seen_anchors starts empty for every file (:119); FALSE: it leaks into the next file
  ContainerGuard \* what the path generator does with an anchored Hash/Array it meets again (eyamlprocessor.py:73-98)
               \* "none"   : descends again - the code as read today; the values below are reported a second time,
               \*            the second decryption (of an already re-keyed value) fails and the run exits 3
               \* "perfile": skips a container whose anchor name was already scanned in THIS file
               \* "leaky"  : the same, but the names scanned are kept across the files of one invocation

(* marker recognition, eyamlprocessor.py:379-395 *)
IsEyaml(text) == StartsWith(Replace(Replace(text, "\n", ""), " ", ""), "ENC[")
Enc(o) == o.enc          \* computed once per value object (LoadHeap, StoreHeap) from its text
NewHead == "ENC[PKCS7,"  \* what the external command's output begins with
NewEnc == IsEyaml(NewHead)

MinOf(S) == CHOOSE x \in S : \A y \in S : x <= y
EmptyDoc == [slots |-> <<>>, objs |-> <<>>]

\* these work for the state (its current file) and for a closed file record alike
NPos(s)    == Len(s.doc.slots)
Slot(s, p) == s.doc.slots[p]
Obj(s, p)  == s.heap[s.bind[p]]
Obj0(s, p) == s.heap[s.doc.slots[p].o]      \* the heap only grows: the first Len(doc.objs) entries are the originals

LoadHeap(doc) == [i \in 1..Len(doc.objs) |-> [head |-> doc.objs[i].head, key |-> doc.objs[i].key, pt |-> doc.objs[i].pt,
                                               anc |-> doc.objs[i].anc, folded |-> doc.objs[i].folded,
                                               trail |-> doc.objs[i].trail, cell |-> i, enc |-> IsEyaml(doc.objs[i].head)]]
LoadBind(doc) == [p \in 1..Len(doc.slots) |-> doc.slots[p].o]
Zeros(doc)    == [i \in 1..Len(doc.objs) |-> 0]

RInit(files, backup) ==
  [pc |-> "scan", files |-> files, backup |-> backup, status |-> 0,
   fi |-> 0,         \* index of the file being processed (0 = none yet)
   done |-> <<>>,    \* the closed files: [doc, heap, bind, ndec, nenc, changed, backed, written]
   doc |-> EmptyDoc, heap |-> <<>>, bind |-> <<>>,
   cur |-> 0,        \* position the path generator stands at (0 = before the first)
   panc |-> "",      \* the anchor name the current path ends in ("[&name]"), "" when it ends in a key or an index
   last |-> 0,       \* last position get_nodes yielded for the current path
   tgt |-> 0,        \* position being rotated
   seen |-> {},      \* seen_anchors
   carry |-> {},     \* container anchor names scanned in the files closed so far (used by the "leaky" guard only)
   buf |-> 0, fmt |-> "",      \* decrypted plaintext and the output format chosen (:170-172)
   changed |-> FALSE, backed |-> FALSE, written |-> FALSE,
   ndec |-> <<>>, nenc |-> <<>>]

Closed(s) == [doc |-> s.doc, heap |-> s.heap, bind |-> s.bind, ndec |-> s.ndec, nenc |-> s.nenc,
              changed |-> s.changed, backed |-> s.backed, written |-> s.written]

(* ---- the two lazy generators ---- *)
\* positions the current path still has to yield (eyamlprocessor.py:73-88: a sequence element that has an
\* anchor is addressed as [&anchor], which designates every element of that sequence with this anchor)
Pending(s) ==
  IF s.cur = 0 THEN {}
  ELSE IF s.panc = "" THEN (IF s.last = 0 THEN {s.cur} ELSE {})
  ELSE {p \in 1..NPos(s) : p > s.last /\ Slot(s, p).vis = Slot(s, s.cur).vis /\ Obj(s, p).anc = s.panc}
\* positions the path generator never reports because the guard does not descend into their container (again)
Skipped(s, p) ==
  LET a == Slot(s, p).canc IN
  a # "" /\ ContainerGuard # "none"
  /\ ((\E q \in 1..(p - 1) : Slot(s, q).canc = a /\ Slot(s, q).vis # Slot(s, p).vis) \/ a \in s.carry)
\* encrypted positions the path generator has not reached yet (evaluated on the document as it is now)
Ahead(s) == {p \in 1..NPos(s) : p > s.cur /\ Enc(Obj(s, p)) /\ ~Skipped(s, p)}

(* ---- the observable view of a document: per position the identity class, key and plaintext ---- *)
ClassOf(bind, p) == MinOf({q \in 1..Len(bind) : bind[q] = bind[p]})
View(heap, bind) == [p \in 1..Len(bind) |-> [o |-> ClassOf(bind, p), key |-> heap[bind[p]].key, pt |-> heap[bind[p]].pt]]

(* ---- Decrypt: what the tool makes of the command's output ---- *)
\* the plaintext of an object as the tool holds it after reading the output; 0 - pt stands for "pt without its
\* trailing white space" (a different plaintext)
Taken(o) == IF ~FixedOutput /\ o.trail = "ws" THEN 0 - o.pt ELSE o.pt
\* :184 refuses an empty result (both designs: the code is followed here, the documentation is silent)
Refused(o) == o.trail = "empty" \/ (~FixedOutput /\ o.trail = "allws")

(* ---- Store ---- *)
Rebound(s) ==
  LET t == s.tgt
      r0 == IF FixedStore THEN {p \in 1..NPos(s) : s.bind[p] = s.bind[t]}
            ELSE {p \in 1..NPos(s) : s.bind[p] = s.bind[t] /\ (Slot(s, p).ct = "map" \/ Slot(s, p).cont = Slot(s, t).cont)}
  IN {p \in 1..NPos(s) : \E q \in r0 : Slot(s, p).loc = Slot(s, q).loc}      \* one physical place, one value
StoreHeap(s) == Append(s.heap, [head |-> NewHead, key |-> "new", pt |-> s.buf, anc |-> Obj(s, s.tgt).anc,
                                folded |-> Obj(s, s.tgt).folded, cell |-> Obj(s, s.tgt).cell, enc |-> NewEnc,
                                trail |-> IF s.buf < 0 THEN "" ELSE Obj(s, s.tgt).trail])
StoreBind(s) == [p \in 1..NPos(s) |-> IF p \in Rebound(s) THEN Len(s.heap) + 1 ELSE s.bind[p]]

(* ---- events accepted in s ---- *)
Expect(s) ==
  IF s.pc = "scan" THEN
       (IF Pending(s) # {}
          THEN {[e |-> "Node", pos |-> Slot(s, MinOf(Pending(s))).loc, anc |-> Obj(s, MinOf(Pending(s))).anc]}
        ELSE IF Ahead(s) # {} THEN {[e |-> "Find"]}
        ELSE IF s.changed /\ s.backup /\ ~s.backed THEN {[e |-> "Backup"]}
        ELSE IF s.changed /\ ~s.written THEN {[e |-> "Write"]}
        ELSE IF s.fi < Len(s.files) THEN {[e |-> "NextFile", fi |-> s.fi + 1]}
        ELSE {[e |-> "Exit", status |-> s.status]})
  ELSE IF s.pc = "dec" THEN
       LET o == Obj(s, s.tgt) IN
       {[e |-> "Decrypt", key |-> "old", ct |-> [key |-> o.key, pt |-> o.pt], ok |-> (o.key = "old"),
         pt |-> IF o.key = "old" THEN o.pt ELSE 0]}
  ELSE IF s.pc = "enc" THEN {[e |-> "Encrypt", key |-> "new", pt |-> s.buf, fmt |-> s.fmt, ok |-> TRUE]}
  ELSE IF s.pc = "store" THEN {[e |-> "Store", after |-> View(StoreHeap(s), StoreBind(s))]}
  ELSE {}

Apply(s, e) ==
  CASE e.e = "NextFile" ->
         LET d == s.files[e.fi] IN
         [s EXCEPT !.fi = e.fi, !.done = IF s.fi = 0 THEN @ ELSE Append(@, Closed(s)),
                   !.doc = d, !.heap = LoadHeap(d), !.bind = LoadBind(d), !.ndec = Zeros(d), !.nenc = Zeros(d),
                   !.cur = 0, !.panc = "", !.last = 0, !.tgt = 0, !.buf = 0, !.fmt = "",
                   !.seen = IF ResetSeen THEN {} ELSE @,
                   !.carry = IF ContainerGuard = "leaky" THEN @ \cup ({s.doc.slots[p].canc : p \in 1..NPos(s)} \ {""}) ELSE @,
                   !.changed = FALSE, !.backed = FALSE, !.written = FALSE]
    [] e.e = "Find" ->
         LET p == MinOf(Ahead(s)) IN
         [s EXCEPT !.cur = p, !.last = 0,
                   !.panc = IF Slot(s, p).ct = "seq" THEN Obj(s, p).anc ELSE ""]
    [] e.e = "Node" ->
         LET p == MinOf(Pending(s)) IN      \* e.pos names its physical place
         IF e.anc # "" /\ e.anc \in s.seen
           THEN [s EXCEPT !.last = p]                                             \* SkipSeenAnchor
           ELSE [s EXCEPT !.last = p, !.tgt = p, !.pc = "dec",
                          !.seen = IF e.anc = "" THEN @ ELSE @ \cup {e.anc}]
    [] e.e = "Decrypt" ->
         LET o == Obj(s, s.tgt) IN
         IF e.ok /\ ~Refused(o)
           THEN [s EXCEPT !.pc = "enc", !.buf = Taken(o), !.fmt = IF o.folded THEN "block" ELSE "string",
                          !.ndec[o.cell] = @ + 1]
           ELSE [s EXCEPT !.pc = "scan", !.status = 3]                            \* :163-166, :184-189
    [] e.e = "Encrypt" -> [s EXCEPT !.pc = "store", !.nenc[Obj(s, s.tgt).cell] = @ + 1]
    [] e.e = "Store"   -> [s EXCEPT !.pc = "scan", !.heap = StoreHeap(s), !.bind = StoreBind(s), !.changed = TRUE,
                                    !.buf = 0, !.fmt = ""]
    [] e.e = "Backup"  -> [s EXCEPT !.backed = TRUE]
    [] e.e = "Write"   -> [s EXCEPT !.written = TRUE]
    [] e.e = "Exit"    -> [s EXCEPT !.pc = "Done"]

RStep(s, e) == IF e \in Expect(s) THEN Apply(s, e) ELSE [s EXCEPT !.pc = "REJECT"]

(* ---- what the property says (C19 statement): predicates of ONE file f (a closed file or the state itself) ---- *)
Secret0(f, p) == Enc(Obj0(f, p))
\* every encrypted value is under the new keys (and hence no longer under the old ones)
FAllNew(f) == \A p \in 1..NPos(f) : Enc(Obj(f, p)) => Obj(f, p).key = "new"
\* ... with exactly the plaintext it had; what was encrypted still is, what was not still is not
FPlaintextKept(f) == \A p \in 1..NPos(f) : Obj(f, p).pt = Obj0(f, p).pt /\ Enc(Obj(f, p)) = Secret0(f, p)
\* values shared through an anchor are rotated once ...
FOncePerCell(f) == \A c \in 1..Len(f.doc.objs) :
                      IF Enc(f.heap[c]) THEN f.ndec[c] = 1 /\ f.nenc[c] = 1 ELSE f.ndec[c] = 0 /\ f.nenc[c] = 0
\* ... and stay shared (and nothing else becomes shared); anchors keep their names
FStillShared(f) == \A p, q \in 1..NPos(f) :
                      /\ (f.doc.slots[p].o = f.doc.slots[q].o) <=> (f.bind[p] = f.bind[q])
                      /\ Obj(f, p).anc = Obj0(f, p).anc
\* non-encrypted positions are never touched
FFrame(f) == \A p \in 1..NPos(f) : ~Secret0(f, p) => f.bind[p] = f.doc.slots[p].o
\* a file holding no encrypted value is neither rewritten nor backed up
FNoSecretNoTouch(f) == (\A p \in 1..NPos(f) : ~Secret0(f, p)) => ~f.backed /\ ~f.written /\ ~f.changed
\* protocol order: the backup is taken before the file is opened for writing, only when asked for
FBackupFirst(f, backup) == (f.backed => backup /\ f.changed) /\ (f.written /\ backup => f.backed)
\* counts never exceed one per cell
FAtMostOnce(f) == \A c \in 1..Len(f.doc.objs) : f.ndec[c] <= 1 /\ f.nenc[c] <= f.ndec[c]

(* ---- ... of the whole invocation ---- *)
Success(s) == s.pc = "Done" /\ s.status = 0
FilesOf(s) == s.done \o (IF s.fi = 0 THEN <<>> ELSE <<Closed(s)>>)
AllFiles(s, P(_)) == \A i \in 1..Len(FilesOf(s)) : P(FilesOf(s)[i])
InvAllNew(s)          == Success(s) => AllFiles(s, FAllNew)
InvPlaintextKept(s)   == Success(s) => AllFiles(s, FPlaintextKept)
InvOncePerCell(s)     == Success(s) => AllFiles(s, FOncePerCell)
InvStillShared(s)     == Success(s) => AllFiles(s, FStillShared)
\* whatever the status, in every state:
InvFrame(s)           == AllFiles(s, FFrame)
InvNoSecretNoTouch(s) == AllFiles(s, FNoSecretNoTouch)
InvBackupFirst(s)     == AllFiles(s, LAMBDA f : FBackupFirst(f, s.backup))
                         /\ (\A i \in 1..Len(s.done) : s.done[i].written <=> s.done[i].changed)
                         /\ (s.pc = "Done" => (s.written <=> s.changed))
InvAtMostOnce(s)      == AllFiles(s, FAtMostOnce)

Failing(s) ==
  IF ~InvFrame(s) THEN "Frame" ELSE IF ~InvNoSecretNoTouch(s) THEN "NoSecretNoTouch"
  ELSE IF ~InvBackupFirst(s) THEN "BackupFirst" ELSE IF ~InvAtMostOnce(s) THEN "AtMostOnce"
  ELSE IF ~InvAllNew(s) THEN "AllNew" ELSE IF ~InvPlaintextKept(s) THEN "PlaintextKept"
  ELSE IF ~InvOncePerCell(s) THEN "OncePerCell" ELSE IF ~InvStillShared(s) THEN "StillShared" ELSE ""
=============================================================================
