----------------------------- MODULE YRoundTrip -----------------------------
(***************************************************************************)
(* C08: the round-trip relations between segments, their written text, the *)
(* mirrored parser (YPathParser) and the mirrored canonical stringifier    *)
(* (YPathSyntax), as operators over a segment sequence.  Used by           *)
(* MC_RoundTrip (exhaustive generator) and Batch_RoundTrip (sequences      *)
(* chosen by the harness).                                                 *)
(***************************************************************************)
EXTENDS YPathSyntax

(***************************************************************************)
(* the relations (one evaluation per state: texts, parses and canonical    *)
(* strings are computed once in `Eval` and shared by every clause)         *)
(***************************************************************************)
SegsOK(ps, want) == ps.out = "done" /\ ps.segs = want
Spell == <<<<".", "esc">>, <<".", "quote">>, <<"/", "esc">>, <<"/", "quote">>>>
CanonOf(u, sepc) == IF u.out = "done" THEN Str(u.segs, sepc) ELSE "<err>"

EvalOf(segs) ==
  LET W  == [i \in 1..4 |-> WriteStyled(segs, Spell[i][1], Spell[i][2])]
      PE == [i \in 1..4 |-> Parse(W[i], "auto", TRUE)]        \* escaped parse of each spelling
      PU == [i \in 1..4 |-> Parse(W[i], "auto", FALSE)]       \* unescaped parse (input of __str__)
      CD == [i \in 1..4 |-> CanonOf(PU[i], ".")]              \* canonical strings, each notation
      CS == [i \in 1..4 |-> CanonOf(PU[i], "/")]
      \* RT1: text -> segments
      rt1 == \A i \in 1..4 : SegsOK(PE[i], segs)
      \* RT2: the canonical string re-parses to the same segments in either notation
      \* (a dot-notation string beginning with "/" is outside the notation)
      rt2 == \A i \in 1..4 : /\ (StartsWith(CD[i], "/") \/ SegsOK(Parse(CD[i], "auto", TRUE), segs))
                              /\ SegsOK(Parse(CS[i], "auto", TRUE), segs)
      \* RT3: the canonical string is a fixed point of parse-then-stringify
      rt3 == \A i \in 1..4 : LET c == IF Spell[i][1] = "." THEN CD[i] ELSE CS[i] IN
                 (Spell[i][1] = "." /\ StartsWith(c, "/")) \/ CanonOf(Parse(c, "auto", FALSE), Spell[i][1]) = c
      \* RT4 (equality is segment equality): every spelling has the same slash-canonical
      \* string of its ESCAPED segments, which is what the repaired __eq__ compares
      rt4 == \A i \in 1..4 : PE[i].out = "done" /\ Str(PE[i].segs, "/") = Str(PE[1].segs, "/")
  IN [segs |-> segs, dot_esc |-> W[1], dot_quote |-> W[2], sl_esc |-> W[3], sl_quote |-> W[4],
      app_dot |-> Piece(segs[Len(segs)], ".", "esc", FALSE), app_sl |-> Piece(segs[Len(segs)], "/", "esc", FALSE),
      base_dot |-> WriteStyled(SubSeq(segs, 1, Len(segs) - 1), ".", "esc"),
      base_sl |-> WriteStyled(SubSeq(segs, 1, Len(segs) - 1), "/", "esc"),
      canon_sl |-> CS[3], rt1 |-> rt1, rt2 |-> rt2, rt3 |-> rt3, rt4 |-> rt4]

\* The design theorems hold outside three input classes in which the pinned design
\* itself breaks them (each confirmed on the real code; DESIGN.md 6.3 / known_findings.json):
QuoteWrapped(t) == Len(t) >= 1 /\ Ch(t, 1) \in Quotes /\ Ch(t, Len(t)) = Ch(t, 1)
BackslashBeforeSep(k) == \E i \in 1..(Len(k) - 1) : Ch(k, i) = "\\" /\ Ch(k, i + 1) \in {".", "/", " ", "(", ")", "[", "]", "^", "$", "%", "'", "\""}
Quirk(segs) == \E i \in 1..Len(segs) :
           \/ segs[i].ty = "SEARCH" /\ QuoteWrapped(segs[i].term)
           \/ segs[i].ty = "KEY" /\ BackslashBeforeSep(segs[i].v)
           \/ ~RegexFixed /\ segs[i].ty = "SEARCH" /\ segs[i].op = "=~" /\ HasChar(segs[i].term, "/")
           \/ segs[i].ty = "SEARCH" /\ segs[i].op = "=~" /\ \A k \in 1..Len(RegexDelims) : HasChar(segs[i].term, RegexDelims[k])

=============================================================================
