------------------------------- MODULE YSave -------------------------------
(***************************************************************************)
(* C17 - "a failing or interrupted tool run never loses the user's file".  *)
(*                                                                         *)
(* The file system as seen by one tool run is three files                  *)
(*     target  - the user's file (yaml-set YAML_FILE, yaml-merge           *)
(*               --overwrite FILE / the first input file, the rotated file)*)
(*     backup  - target + ".bak"                                           *)
(*     output  - yaml-merge --output FILE                                  *)
(* each holding one of the abstract contents FVals below (ORIG = the bytes *)
(* of the target before the run, STALE = whatever an earlier run left, NEW *)
(* = the complete new document, PARTIAL = anything else non-empty).        *)
(*                                                                         *)
(* The save protocols of the three tools are straight-line programs of     *)
(* I/O calls.  The machine below has ONE ACTION PER I/O CALL, in program   *)
(* order, each citing the source line (pinned /repo tree):                 *)
(*                                                                         *)
(*   yaml-set          commands/yaml_set.py                                *)
(*     load        Parsers.get_yaml_data -> open(file,'r')   parsers.py:118*)
(*     work        validation / change application; critical() exits       *)
(*                 (:451 unmatched, :580 --check, :592/:618/:659/:425      *)
(*                 impossible change)  - all before :664                   *)
(*     exists_bak  exists(backup_file)                               :390  *)
(*     remove_bak  remove(backup_file)                               :391  *)
(*     copy_bak    copy2(args.yaml_file, backup_file)                :392  *)
(*     open_tmp    tempfile.TemporaryFile()                          :327  *)
(*     open_r2     open(args.yaml_file,'rb')                         :328  *)
(*     copy_tmp    copyfileobj(inhnd, tmphnd)                        :329  *)
(*     close_r     (with-exit of :328)                               :329  *)
(*     open_w      open(args.yaml_file,'w')  - truncates       :331 / :315 *)
(*     dump        yaml_parser.dump / json.dump          :333 / :317,:321  *)
(*     close_w     (with-exit of :331 / :315)                              *)
(*     close_tmp   (with-exit of :327)                                     *)
(*     restore-on-assertion (:338-354): r_close_w :339, r_open_wb :341,    *)
(*                 r_copy :342, r_close_wb (with-exit :341),               *)
(*                 r_remove_bak :346, critical(...,3) :351                 *)
(*   yaml-merge        commands/yaml_merge.py                              *)
(*     start       exists(args.output) :256 (refuses) / exists(overwrite)  *)
(*                 :260 (warns)                                            *)
(*     load/work   get_doc_mergers -> parsers.py:226 per input file;       *)
(*                 merge / anchor conflicts -> exit_state # 0, :551 skips   *)
(*                 the write                                               *)
(*     exists_bak :296  remove_bak :297  copy_bak :298                     *)
(*     open_w :310   dump :325,:329,:334,:336   close_w (with-exit :310)   *)
(*   eyaml-rotate-keys commands/eyaml_rotate_keys.py                       *)
(*     load :133 (parsers.py:118); nothing to rotate -> file_changed FALSE *)
(*     -> no I/O at all (:188)                                             *)
(*     exists_bak :192  remove_bak :193  copy_bak :194                     *)
(*     open_w :197   dump :198   close_w (with-exit :197)                  *)
(*                                                                         *)
(* The machine is a pure function SStep(s, e) over a state record and an   *)
(* event record e = [op, role, res, eff]; it returns pc = "REJECT" when e  *)
(* is not enabled in s.  MC_YSave uses it in Next, Trace_YSave folds it    *)
(* along event traces recorded from the real main() functions.             *)
(*   res: "ok" | "fail" (the call raised OSError - at most one per run)    *)
(*        | "true"/"false" (value returned by exists)                      *)
(*        | "assert" (ruamel's dump raised AssertionError, yaml_set.py:338)*)
(*   eff: what a failing call left behind in the file it was writing:      *)
(*        "none" | "empty" | "partial" | "full" (everything was written,   *)
(*        the call failed nevertheless - e.g. a failed flush that the      *)
(*        buffered writer repeats on close);  "-" for calls that did not   *)
(*        fail                                                             *)
(*   exit events: op = "exit", role = the cause, res = "ok" (status 0) or  *)
(*        "fail" (non-zero status or uncaught exception)                   *)
(*                                                                         *)
(* Deliberately defective designs are reachable through three constants    *)
(* (all TRUE = the code as read):                                          *)
(*   BackupFirst   FALSE: the backup is copied after the target was opened *)
(*                 for writing                                             *)
(*   CheckOutput   FALSE: yaml-merge does not refuse an existing --output  *)
(*   ValidateFirst FALSE: a validation failure can be raised after the     *)
(*                 write                                                   *)
(*   PrepareFirst  TRUE = FixedPrepare: yaml-merge prepares the result for *)
(*                 output (where "unrepresentable" is detected) before the *)
(*                 backup steps; FALSE = MirroredPrepare: the pinned order *)
(*                 yaml_merge.py:291-298 (backup) then :300-307 (prepare), *)
(*                 which TLC shows to violate PreWriteFailureLeavesNoTrace *)
(*   CloseBeforeRestore TRUE = the restore-on-assertion handler first      *)
(*                 closes the half-written dump handle (yaml_set.py:339);  *)
(*                 FALSE: it does not, so the handle's buffered partial    *)
(*                 document is flushed over the restored file when the     *)
(*                 with-block unwinds                                      *)
(*   BackupFollowsLinks TRUE = copy2(target, bak) copies the bytes the     *)
(*                 target path reads (shutil default); FALSE: a symlinked  *)
(*                 target is copied as a link, the .bak ALIASes the target *)
(*                                                                         *)
(* Buffering.  The dump writes through a buffered handle.  A failing dump  *)
(* can leave part of the new document                                      *)
(*   eff = "partial"  already in the file (flushed), or                    *)
(*   eff = "buffered" still in the handle (the file is unchanged right     *)
(*                    after the call); it reaches the file - at the        *)
(*                    handle's own offset 0, over whatever the file holds  *)
(*                    by then - when THAT handle is closed (pend, wpos).   *)
(* File kind.  o.link: the target path is a symbolic link to a regular     *)
(* file; every tool reads and writes through it.  A .bak that is a second  *)
(* name of the same file has the value "ALIAS".                            *)
(***************************************************************************)
EXTENDS Naturals, Sequences, FiniteSets

CONSTANTS BackupFirst, CheckOutput, ValidateFirst, PrepareFirst, CloseBeforeRestore, BackupFollowsLinks, MaxInputs

FVals == {"absent", "ORIG", "STALE", "EMPTY", "PARTIAL", "NEW", "ALIAS"}
Tools == {"set", "merge_out", "merge_ow", "rotate"}

\* option sets: tool, --backup, a stale .bak present, --output file pre-existing,
\* yaml-set saving as JSON (flow root or .json name: no temporary copy),
\* changed = there is something to write (FALSE only for rotate without secrets),
\* link = the target path is a symbolic link to a regular file
AllOpts == { o \in [tool : Tools, bak : BOOLEAN, stale : BOOLEAN, outx : BOOLEAN,
                    json : BOOLEAN, changed : BOOLEAN, link : BOOLEAN] :
               /\ (o.link => o.tool # "merge_out")     \* with --output the first input is only read
               /\ (o.tool = "merge_out" => ~o.bak)     \* yaml_merge.py:275 refuses --backup with --output
               /\ (o.outx => o.tool = "merge_out")
               /\ (o.json => o.tool = "set")
               /\ (~o.changed => o.tool = "rotate") }

PreWrite == {"unmatched", "check", "impossible", "merge_conflict", "anchor_conflict",
             "unreadable", "exists_output",
             "unrepresentable"}   \* the result cannot be expressed in the output format (JSON: non-string Hash key);
                                  \* raised while the result is PREPARED for output: Merger.prepare_for_dump ->
                                  \* json.dump(jsonify_yaml_data(..)), yaml_merge.py:300-307, before open :310
CausesOf(tool) == CASE tool = "set" -> {"unmatched", "check", "impossible", "unreadable"}
                    [] tool \in {"merge_out", "merge_ow"} -> {"merge_conflict", "anchor_conflict", "unreadable",
                                                              "unrepresentable"}
                    [] OTHER -> {"unreadable"}
ExitCauses == PreWrite \cup {"none", "io", "assert"}

FileRoles == {"target", "backup", "output", "tmp", "other"}
IOOps == {"exists", "remove", "copy2", "tmpfile", "open_r", "open_rb", "open_w", "open_wb",
          "copyfileobj", "dump", "close"}
Events == [op : IOOps, role : FileRoles, res : {"ok", "fail", "true", "false", "assert"},
           eff : {"-", "none", "empty", "partial", "full", "buffered"}]
          \cup [op : {"exit"}, role : ExitCauses, res : {"ok", "fail"}, eff : {"-"}]

Fs0(o) == [target |-> "ORIG",
           backup |-> IF o.stale THEN "STALE" ELSE "absent",
           output |-> IF o.outx THEN "STALE" ELSE "absent"]

SInit(o) == [o |-> o,
             pc |-> IF o.tool \in {"merge_out", "merge_ow"} THEN "start" ELSE "load",
             fs |-> Fs0(o), fs0 |-> Fs0(o),
             faults |-> 1,           \* injected I/O faults still available
             open |-> <<>>,          \* stack of the roles of the handles opened by the save code
             wpos |-> 0,             \* depth in that stack of the handle the dump writes through (0: not open)
             pend |-> FALSE,         \* that handle holds a buffered, not yet flushed part of the new document
             nload |-> 0,            \* input files opened for loading
             code |-> "run", cause |-> "none",
             copied |-> FALSE,       \* CopyToBak has succeeded
             restored |-> FALSE]     \* the restore-on-assertion path has rewritten the target

-----------------------------------------------------------------------------
\* small helpers
Reject(s) == [s EXCEPT !.pc = "REJECT"]
Go(s, l) == [s EXCEPT !.pc = l]
Abort(s, c) == [s EXCEPT !.pc = "abort", !.faults = 0, !.cause = c]
Done(s, code, c) == [s EXCEPT !.pc = "done", !.code = code, !.cause = c]
Push(s, r) == [s EXCEPT !.open = <<r>> \o @]
\* closing a handle; closing the dump handle flushes what it still buffers over the file as it is now
Pop(s) == IF s.wpos > 0 /\ Len(s.open) = s.wpos
          THEN [s EXCEPT !.open = Tail(@), !.wpos = 0, !.pend = FALSE,
                         !.fs = IF s.pend THEN [@ EXCEPT ![IF s.o.tool = "merge_out" THEN "output" ELSE "target"] = "PARTIAL"] ELSE @]
          ELSE [s EXCEPT !.open = Tail(@)]
Put(s, role, v) == [s EXCEPT !.fs = [@ EXCEPT ![role] = v]]

Okay(e) == e.res = "ok" /\ e.eff = "-"
FailsClean(s, e) == e.res = "fail" /\ e.eff = "none" /\ s.faults = 1

\* the file the new document is written to
W(s) == IF s.o.tool = "merge_out" THEN "output" ELSE "target"
YamlSet(s) == s.o.tool = "set" /\ ~s.o.json        \* yaml-set's YAML save path (with the temporary copy)

\* program order
SaveStart(s)   == IF YamlSet(s) THEN "open_tmp" ELSE "open_w"
W0(s)          == IF ~s.o.changed THEN "end"
                  ELSE IF s.o.bak /\ BackupFirst THEN "exists_bak" ELSE SaveStart(s)
AfterBackup(s) == IF BackupFirst THEN SaveStart(s) ELSE "dump"
AfterOpenW(s)  == IF s.o.bak /\ ~BackupFirst THEN "exists_bak" ELSE "dump"
AfterCloseW(s) == IF YamlSet(s) THEN "close_tmp" ELSE "end"

\* an I/O call that changes no file whether it succeeds (-> nxt) or fails
Plain(s, e, op, role, nxt) ==
  IF e.op = op /\ e.role = role
  THEN IF Okay(e) THEN nxt ELSE IF FailsClean(s, e) THEN Abort(s, "io") ELSE Reject(s)
  ELSE Reject(s)

\* exists(path): the returned value must agree with the file system
Exists(s, e, role, ifTrue, ifFalse) ==
  IF e.op = "exists" /\ e.role = role
  THEN IF e.eff = "-" /\ e.res = "true" /\ s.fs[role] # "absent" THEN ifTrue
       ELSE IF e.eff = "-" /\ e.res = "false" /\ s.fs[role] = "absent" THEN ifFalse
       ELSE IF FailsClean(s, e) THEN Abort(s, "io")
       ELSE Reject(s)
  ELSE Reject(s)

LeftBy(eff, before) == CASE eff = "none" -> before [] eff = "empty" -> "EMPTY" [] OTHER -> "PARTIAL"

RECURSIVE AtLabel(_, _, _)
AtLabel(l, s, e) ==
  CASE l = "start" ->          \* yaml_merge.py:254-263
         IF s.o.tool = "merge_out"
         THEN Exists(s, e, "output", IF CheckOutput THEN Go(s, "vfail") ELSE Go(s, "load"), Go(s, "load"))
         ELSE Exists(s, e, "target", Go(s, "load"), Reject(s))
    [] l = "vfail" ->          \* yaml_merge.py:283-284 sys.exit(1)
         IF e.op = "exit" /\ e.res = "fail" /\ e.role = "exists_output" THEN Done(s, "fail", "exists_output")
         ELSE Reject(s)
    [] l = "load" ->           \* first input file = the target (parsers.py:118 / :226)
         Plain(s, e, "open_r", "target", [s EXCEPT !.pc = "work", !.nload = 1])
    [] l = "work" ->
         IF e.op = "exit"
         THEN IF e.res = "fail" /\ e.role \in CausesOf(s.o.tool)
                 /\ (e.role \in {"merge_conflict", "anchor_conflict"} => s.nload >= 2)   \* a conflict needs a second document
              THEN Done(s, "fail", e.role)    \* FailBeforeWrite(cause)
              ELSE IF W0(s) = "end" THEN AtLabel("end", s, e) ELSE Reject(s)
         ELSE IF e.op = "open_r"
         THEN IF s.o.tool \in {"merge_out", "merge_ow"} /\ s.nload < MaxInputs
              THEN Plain(s, e, "open_r", "other", [s EXCEPT !.nload = @ + 1]) ELSE Reject(s)
         ELSE AtLabel(W0(s), s, e)
    [] l = "exists_bak" -> Exists(s, e, "backup", Go(s, "remove_bak"), Go(s, "copy_bak"))
    [] l = "remove_bak" -> Plain(s, e, "remove", "backup", Go(Put(s, "backup", "absent"), "copy_bak"))
    [] l = "copy_bak" ->
         IF e.op = "copy2" /\ e.role = "backup"
         THEN IF Okay(e) THEN [Go(Put(s, "backup", IF s.o.link /\ ~BackupFollowsLinks THEN "ALIAS" ELSE s.fs.target),
                                  AfterBackup(s)) EXCEPT !.copied = TRUE]
              ELSE IF e.res = "fail" /\ e.eff \in {"none", "empty", "partial", "full"} /\ s.faults = 1
              THEN Abort(Put(s, "backup", IF e.eff = "full" THEN s.fs.target ELSE LeftBy(e.eff, s.fs.backup)), "io")
              ELSE Reject(s)
         ELSE Reject(s)
    [] l = "open_tmp" -> Plain(s, e, "tmpfile", "tmp", Go(Push(s, "tmp"), "open_r2"))
    [] l = "open_r2"  -> Plain(s, e, "open_rb", "target", Go(Push(s, "target"), "copy_tmp"))
    [] l = "copy_tmp" -> Plain(s, e, "copyfileobj", "tmp", Go(s, "close_r"))
    [] l = "close_r"  -> IF e.op = "close" /\ e.role = "target" /\ (Okay(e) \/ FailsClean(s, e))
                         THEN (IF Okay(e) THEN Go(Pop(s), "open_w") ELSE Abort(Pop(s), "io"))
                         ELSE Reject(s)
    [] l = "open_w" ->
         \* MirroredPrepare (PrepareFirst = FALSE): yaml_merge.py:291-307 as pinned prepares the documents for
         \* dumping AFTER the backup steps, so "unrepresentable" can end the run here, the .bak already written
         IF e.op = "exit"
         THEN IF ~PrepareFirst /\ s.pc = "open_w" /\ s.o.tool = "merge_ow" /\ s.open = <<>>
                 /\ e.res = "fail" /\ e.role = "unrepresentable"
              THEN Done(s, "fail", "unrepresentable") ELSE Reject(s)
         ELSE Plain(s, e, "open_w", W(s), [Go(Push(Put(s, W(s), "EMPTY"), W(s)), AfterOpenW(s)) EXCEPT !.wpos = Len(s.open) + 1])
    [] l = "dump" ->
         IF e.op = "dump" /\ e.role = W(s)
         THEN IF Okay(e) THEN Go(Put(s, W(s), "NEW"), "close_w")
              ELSE IF e.res = "fail" /\ e.eff \in {"none", "partial", "full"} /\ s.faults = 1
              THEN Abort(Put(s, W(s), IF e.eff = "full" THEN "NEW" ELSE LeftBy(e.eff, s.fs[W(s)])), "io")
              ELSE IF e.res = "fail" /\ e.eff = "buffered" /\ s.faults = 1          \* dump-partial, part still in the handle
              THEN [Abort(s, "io") EXCEPT !.pend = TRUE]
              ELSE IF e.res = "assert" /\ e.eff \in {"none", "partial", "buffered"} /\ s.faults = 1 /\ YamlSet(s)
              THEN [Go(IF e.eff = "buffered" THEN s ELSE Put(s, W(s), LeftBy(e.eff, s.fs[W(s)])),
                       IF CloseBeforeRestore THEN "r_close_w" ELSE "r_open_wb")
                    EXCEPT !.faults = 0, !.cause = "assert", !.pend = (e.eff = "buffered")]
              ELSE Reject(s)
         ELSE Reject(s)
    [] l = "close_w" -> IF e.op = "close" /\ e.role = W(s) /\ (Okay(e) \/ FailsClean(s, e))
                        THEN (IF Okay(e) THEN Go(Pop(s), AfterCloseW(s)) ELSE Abort(Pop(s), "io"))
                        ELSE Reject(s)
    [] l = "close_tmp" -> IF e.op = "close" /\ e.role = "tmp" /\ (Okay(e) \/ FailsClean(s, e))
                          THEN (IF Okay(e) THEN Go(Pop(s), "end") ELSE Abort(Pop(s), "io"))
                          ELSE Reject(s)
    [] l = "end" ->
         IF e.op = "exit" /\ s.open = <<>>
         THEN IF e.res = "ok" /\ e.role = "none" THEN Done(s, "ok", "none")
              ELSE IF ~ValidateFirst /\ e.res = "fail" /\ e.role \in (CausesOf(s.o.tool) \ {"unreadable"})
              THEN Done(s, "fail", e.role)
              ELSE Reject(s)
         ELSE Reject(s)
    \* restore-on-assertion, yaml_set.py:338-354
    [] l = "r_close_w"  -> IF e.op = "close" /\ e.role = "target" /\ Okay(e) THEN Go(Pop(s), "r_open_wb") ELSE Reject(s)
    [] l = "r_open_wb"  -> IF e.op = "open_wb" /\ e.role = "target" /\ Okay(e)
                           THEN Go(Push(Put(s, "target", "EMPTY"), "target"), "r_copy") ELSE Reject(s)
    [] l = "r_copy"     -> IF e.op = "copyfileobj" /\ e.role = "target" /\ Okay(e)
                           THEN [Go(Put(s, "target", "ORIG"), "r_close_wb") EXCEPT !.restored = TRUE] ELSE Reject(s)
    [] l = "r_close_wb" -> IF e.op = "close" /\ e.role = "target" /\ Okay(e)
                           THEN Go(Pop(s), IF s.o.bak THEN "r_remove_bak" ELSE "abort") ELSE Reject(s)
    [] l = "r_remove_bak" -> IF e.op = "remove" /\ e.role = "backup" /\ Okay(e)
                             THEN Go(Put(s, "backup", "absent"), "abort") ELSE Reject(s)
    \* an exception (OSError, SystemExit of critical()) unwinds the with-blocks innermost first
    [] l = "abort" ->
         IF e.op = "close" THEN (IF s.open # <<>> /\ e.role = Head(s.open) /\ Okay(e) THEN Pop(s) ELSE Reject(s))
         ELSE IF e.op = "exit" /\ e.res = "fail" /\ e.role = s.cause /\ s.open = <<>> THEN Done(s, "fail", s.cause)
         ELSE Reject(s)
    [] OTHER -> Reject(s)      \* "done", "REJECT"

SStep(s, e) == AtLabel(s.pc, s, e)

\* the label whose I/O call is next (for naming actions): "work" stands for the first write label
Lbl(s) == IF s.pc = "work" THEN W0(s) ELSE s.pc

-----------------------------------------------------------------------------
\* state predicates (the property)
TypeOK(s) == /\ s.fs.target \in FVals /\ s.fs.backup \in FVals /\ s.fs.output \in FVals
             /\ s.faults \in {0, 1} /\ s.code \in {"run", "ok", "fail"} /\ s.cause \in ExitCauses
             /\ Len(s.open) <= 3 /\ s.wpos <= Len(s.open) /\ (s.pend => s.wpos > 0)

\* a run that ends non-zero for a reason detected before writing leaves every file as it was
PreWriteFailureLeavesNoTrace(s) ==
  (s.pc = "done" /\ s.code = "fail" /\ s.cause \in PreWrite) => s.fs = s.fs0

\* yaml-merge --output never replaces (or touches) an existing file
OutputNeverReplaces(s) ==
  (s.o.tool = "merge_out" /\ s.fs0.output # "absent") => s.fs.output = s.fs0.output

\* once the backup copy has succeeded the .bak holds the pre-image (the restore path may delete it
\* again, but only after the target itself has been rewritten with the pre-image, yaml_set.py:341-346)
BackupIsPreimage(s) ==
  s.copied => (s.fs.backup = "ORIG" \/ (s.restored /\ s.fs.backup = "absent" /\ s.fs.target = "ORIG"))

\* with --backup, in EVERY state (hence at every interruption point, with at most one failed call)
\* the complete original bytes exist in the target or in the backup
SingleFaultSafety(s) == s.o.bak => (s.fs.target = "ORIG" \/ s.fs.backup = "ORIG")

\* nothing to write -> no backup, no write; a restored (unchanged) target keeps no backup
NoBackupWhenUnchanged(s) ==
  /\ (~s.o.changed => s.fs = s.fs0)
  /\ ((s.restored /\ s.pc \in {"abort", "done"}) => (s.fs.target = "ORIG" /\ (s.o.bak => s.fs.backup = "absent")))

\* frame: a tool only writes the files it owns
Frame(s) == /\ (s.o.tool = "merge_out" => s.fs.target = "ORIG" /\ s.fs.backup = s.fs0.backup)
            /\ (s.o.tool # "merge_out" => s.fs.output = "absent")
            /\ (~s.o.bak => s.fs.backup = s.fs0.backup)

\* status 0 means the new document is completely written (and backed up when asked)
SuccessMeansSaved(s) ==
  (s.pc = "done" /\ s.code = "ok" /\ s.o.changed) =>
     (s.fs[W(s)] = "NEW" /\ (s.o.bak => s.fs.backup = "ORIG") /\ s.open = <<>>)

Invariants == <<"TypeOK", "PreWriteFailureLeavesNoTrace", "OutputNeverReplaces", "BackupIsPreimage",
                "SingleFaultSafety", "NoBackupWhenUnchanged", "Frame", "SuccessMeansSaved">>
Holds(name, s) == CASE name = "TypeOK" -> TypeOK(s)
                    [] name = "PreWriteFailureLeavesNoTrace" -> PreWriteFailureLeavesNoTrace(s)
                    [] name = "OutputNeverReplaces" -> OutputNeverReplaces(s)
                    [] name = "BackupIsPreimage" -> BackupIsPreimage(s)
                    [] name = "SingleFaultSafety" -> SingleFaultSafety(s)
                    [] name = "NoBackupWhenUnchanged" -> NoBackupWhenUnchanged(s)
                    [] name = "Frame" -> Frame(s)
                    [] OTHER -> SuccessMeansSaved(s)
\* name of the first violated predicate, "" when all hold
FirstBroken(s) == LET bad == {i \in 1..Len(Invariants) : ~Holds(Invariants[i], s)}
                  IN IF bad = {} THEN "" ELSE Invariants[CHOOSE i \in bad : \A j \in bad : i <= j]
=============================================================================
