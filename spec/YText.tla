------------------------------- MODULE YText -------------------------------
(***************************************************************************)
(* Text for the yamlpath specification family.                            *)
(*                                                                         *)
(* Text is a native TLA+ string.  TLC evaluates Len, \o, SubSeq and Tail   *)
(* on strings; a character is a string of length 1.  Everything else       *)
(* (prefix, suffix, substring, replace, split, lexicographic order,        *)
(* decimal conversion, the classifier PyLit that abstracts Python's        *)
(* ast.literal_eval as used by yamlpath.common.nodes.Nodes.typed_value) is *)
(* defined here once and used by every other module.                       *)
(***************************************************************************)
EXTENDS Naturals, Integers, Sequences, FiniteSets, TLC

Ch(s, i) == SubSeq(s, i, i)

\* Printable ASCII in code-point order (space .. tilde); position = order.
Ascii == " !\"#$%&'()*+,-./0123456789:;<=>?@ABCDEFGHIJKLMNOPQRSTUVWXYZ[\\]^_`abcdefghijklmnopqrstuvwxyz{|}~"
AsciiSet == {Ch(Ascii, i) : i \in 1..Len(Ascii)}
OrdTab == [c \in AsciiSet |-> CHOOSE i \in 1..Len(Ascii) : Ch(Ascii, i) = c]
\* Characters outside the table order after every table character (only
\* ever needed for equality; the harness keeps ordered text inside the table).
Ord(c) == IF c \in AsciiSet THEN OrdTab[c] + 31 ELSE 1000

Digits == {"0","1","2","3","4","5","6","7","8","9"}
DigitVal == [c \in Digits |-> Ord(c) - 48]
DigitChr == [d \in 0..9 |-> Ch("0123456789", d + 1)]
Uppers == {Ch("ABCDEFGHIJKLMNOPQRSTUVWXYZ", i) : i \in 1..26}
LowerOf == [c \in Uppers |-> Ch(Ascii, OrdTab[c] + 32)]

StartsWith(s, p) == Len(p) <= Len(s) /\ SubSeq(s, 1, Len(p)) = p
EndsWith(s, p)   == Len(p) <= Len(s) /\ SubSeq(s, Len(s) - Len(p) + 1, Len(s)) = p
Contains(s, p)   == \E i \in 1..(Len(s) - Len(p) + 1) : SubSeq(s, i, i + Len(p) - 1) = p
\* first position of p in s at or after position from; 0 when absent
IndexFrom(s, p, from) ==
  LET C == {i \in from..(Len(s) - Len(p) + 1) : SubSeq(s, i, i + Len(p) - 1) = p}
  IN IF C = {} THEN 0 ELSE CHOOSE i \in C : \A j \in C : i <= j
HasChar(s, c) == \E i \in 1..Len(s) : Ch(s, i) = c
CountChar(s, c) == Cardinality({i \in 1..Len(s) : Ch(s, i) = c})

RECURSIVE LexLT(_, _)
LexLT(a, b) ==
  IF b = "" THEN FALSE
  ELSE IF a = "" THEN TRUE
  ELSE LET x == Ord(Ch(a, 1)) y == Ord(Ch(b, 1)) IN
       IF x < y THEN TRUE ELSE IF x > y THEN FALSE ELSE LexLT(Tail(a), Tail(b))
LexLE(a, b) == a = b \/ LexLT(a, b)

RECURSIVE Lower(_)
Lower(s) == IF s = "" THEN "" ELSE
  LET c == Ch(s, 1) IN (IF c \in Uppers THEN LowerOf[c] ELSE c) \o Lower(Tail(s))

\* Python str.replace(a, b) for non-empty a (left to right, non-overlapping)
RECURSIVE Replace(_, _, _)
Replace(s, a, b) ==
  IF Len(s) < Len(a) THEN s
  ELSE IF SubSeq(s, 1, Len(a)) = a THEN b \o Replace(SubSeq(s, Len(a) + 1, Len(s)), a, b)
  ELSE Ch(s, 1) \o Replace(Tail(s), a, b)

\* Python str.split(sep) for non-empty sep
RECURSIVE SplitAcc(_, _, _)
SplitAcc(s, sep, cur) ==
  IF Len(s) < Len(sep) THEN <<cur \o s>>
  ELSE IF SubSeq(s, 1, Len(sep)) = sep THEN <<cur>> \o SplitAcc(SubSeq(s, Len(sep) + 1, Len(s)), sep, "")
  ELSE SplitAcc(Tail(s), sep, cur \o Ch(s, 1))
Split(s, sep) == SplitAcc(s, sep, "")

RECURSIVE Join(_, _)
Join(parts, sep) == IF Len(parts) = 0 THEN "" ELSE IF Len(parts) = 1 THEN parts[1]
                    ELSE parts[1] \o sep \o Join(Tail(parts), sep)

\* Python str.strip() over spaces (the only whitespace the models generate)
RECURSIVE LStrip(_)
LStrip(s) == IF s # "" /\ Ch(s, 1) = " " THEN LStrip(Tail(s)) ELSE s
RECURSIVE RStrip(_)
RStrip(s) == IF s # "" /\ Ch(s, Len(s)) = " " THEN RStrip(SubSeq(s, 1, Len(s) - 1)) ELSE s
Strip(s) == RStrip(LStrip(s))

AllDigits(s) == s # "" /\ \A i \in 1..Len(s) : Ch(s, i) \in Digits
RECURSIVE NatVal(_)
NatVal(s) == IF s = "" THEN 0 ELSE NatVal(SubSeq(s, 1, Len(s) - 1)) * 10 + DigitVal[Ch(s, Len(s))]
RECURSIVE NatStr(_)
NatStr(n) == IF n < 10 THEN DigitChr[n] ELSE NatStr(n \div 10) \o DigitChr[n % 10]
IntStr(n) == IF n < 0 THEN "-" \o NatStr(0 - n) ELSE NatStr(n)

\* Python int(text) over the generated alphabet: optional sign then digits
\* (surrounding spaces are accepted by int(); underscores are not generated).
IsPyInt(s) == LET t == Strip(s) IN
  \/ AllDigits(t)
  \/ (Len(t) > 1 /\ Ch(t, 1) \in {"-", "+"} /\ AllDigits(Tail(t)))
PyIntVal(s) == LET t == Strip(s) IN
  IF Ch(t, 1) = "-" THEN 0 - NatVal(Tail(t)) ELSE IF Ch(t, 1) = "+" THEN NatVal(Tail(t)) ELSE NatVal(t)

(***************************************************************************)
(* PyLit(text): what ast.literal_eval makes of a text, restricted to the   *)
(* token shapes the models generate.  Result [ty, n, d, s]:                *)
(*   ty = "int"   value n                                                  *)
(*   ty = "float" value n / d   (d a power of ten; decimal literals only)  *)
(*   ty = "bool"  value n \in {0,1}                                        *)
(*   ty = "none"                                                           *)
(*   ty = "str"   value s (a quoted Python string literal, quotes removed) *)
(*   ty = "raw"   no conversion: the text itself (ValueError/SyntaxError)  *)
(*   ty = "odd"   a shape this classifier does not decide (tuples, hex,    *)
(*                exponents, underscores, ...): callers treat the case as  *)
(*                informational.                                           *)
(* Nodes.typed_value title-cases true/false (any case) before evaluating.  *)
(***************************************************************************)
Lit(ty, n, d, s) == [ty |-> ty, n |-> n, d |-> d, s |-> s]
RECURSIVE Pow10(_)
Pow10(k) == IF k = 0 THEN 1 ELSE 10 * Pow10(k - 1)

\* unsigned decimal number text: digits | digits.digits | digits. | .digits
UDec(t) ==
  LET p == IndexFrom(t, ".", 1) IN
  IF p = 0 THEN (IF AllDigits(t) /\ (Len(t) = 1 \/ Ch(t, 1) # "0" \/ NatVal(t) = 0) THEN Lit("int", NatVal(t), 1, "") ELSE Lit("raw", 0, 1, ""))
  ELSE LET a == SubSeq(t, 1, p - 1) b == SubSeq(t, p + 1, Len(t)) IN
       IF (a = "" /\ b = "") \/ (a # "" /\ ~AllDigits(a)) \/ (b # "" /\ ~AllDigits(b)) THEN Lit("raw", 0, 1, "")
       ELSE Lit("float", NatVal(a) * Pow10(Len(b)) + NatVal(b), Pow10(Len(b)), "")

OddChars == {"(", ")", "[", "]", "{", "}", ",", "_", "e", "E", "x", "X", "o", "O", "b", "B", "j", "J", "#", "\\", "\t", "\n"}
LooksOdd(t) ==
  \* shapes we refuse to classify: anything that could be a non-trivial Python
  \* literal or expression beyond signed decimals and simple quoted strings
  /\ t # ""
  /\ \/ Ch(t, 1) \in {"(", "[", "{", "b", "B", "r", "R", "u", "U", "f", "F"} /\ Len(t) > 1 /\ (Ch(t, 1) \in {"(", "[", "{"} \/ Ch(t, 2) \in {"'", "\""})
     \/ (Ch(t, 1) \in Digits \cup {".", "-", "+"}) /\ \E i \in 1..Len(t) : Ch(t, i) \in {"_", "e", "E", "x", "X", "o", "O", "b", "B", "j", "J"}
     \/ (Ch(t, 1) \in {"-", "+"} /\ Len(t) > 1 /\ Ch(t, 2) \in {"-", "+", " ", "("})
     \/ HasChar(t, "#") \/ HasChar(t, "\\")
     \/ (Ch(t, 1) \in {"'", "\""} /\ CountChar(t, Ch(t, 1)) # 2)
     \/ (Ch(t, 1) \in {"'", "\""} /\ Ch(t, Len(t)) # Ch(t, 1))

PyLit(text) ==
  LET low == Lower(text)
      t0 == IF low \in {"true", "false"} THEN low ELSE text
      t == Strip(t0)   \* literal_eval strips leading spaces/tabs; trailing spaces are harmless
  IN IF low = "true" THEN Lit("bool", 1, 1, "")
     ELSE IF low = "false" THEN Lit("bool", 0, 1, "")
     ELSE IF text = "None" THEN Lit("none", 0, 1, "")
     ELSE IF t = "" THEN Lit("raw", 0, 1, "")
     ELSE IF t = "..." THEN Lit("odd", 0, 1, "")       \* Ellipsis
     ELSE IF Ch(text, 1) = " " THEN Lit("odd", 0, 1, "")  \* leading blank: IndentationError subtleties
     ELSE IF LooksOdd(t) THEN Lit("odd", 0, 1, "")
     ELSE IF t = "None" THEN Lit("none", 0, 1, "")
     ELSE IF t \in {"True", "False"} THEN Lit("odd", 0, 1, "")  \* only reachable with surrounding blanks
     ELSE IF Ch(t, 1) \in {"'", "\""} THEN Lit("str", 0, 1, SubSeq(t, 2, Len(t) - 1))
     ELSE IF Ch(t, 1) \in {"-", "+"} THEN
        (IF Len(t) = 1 THEN Lit("raw", 0, 1, "") ELSE
         LET u == UDec(Tail(t)) IN
         IF u.ty = "raw" THEN u ELSE IF Ch(t, 1) = "-" THEN Lit(u.ty, 0 - u.n, u.d, "") ELSE u)
     ELSE IF Ch(t, 1) \in Digits \cup {"."} THEN UDec(t)
     ELSE Lit("raw", 0, 1, "")

=============================================================================
