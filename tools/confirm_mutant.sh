#!/bin/bash
# usage: tools/confirm_mutant.sh <patch.diff> <demo.py>
# Independently confirms a seeded change in a scratch worktree of /repo's pinned base + fixes:
# (1) the existing suite gives the baseline summary, (2) the demo fails with it, (3) passes without it.
set -u
patch=$(readlink -f "$1"); demo=$(readlink -f "$2")
wt=$(mktemp -d /tmp/confirm.XXXXXX)
git -C /repo worktree add -q --detach "$wt" HEAD || exit 2
trap 'git -C /repo worktree remove --force "$wt"' EXIT
cd "$wt"
PYTHONPATH=$wt timeout 300 /venv/bin/python "$demo" >/dev/null 2>&1; echo "demo without change: rc=$?"
git apply "$patch" || { echo "patch does not apply"; exit 2; }
PYTHONPATH=$wt timeout 300 /venv/bin/python "$demo" >/dev/null 2>&1; echo "demo with change:    rc=$?"
PYTHONPATH=$wt /venv/bin/python -m pytest -q -p no:cacheprovider --timeout=900 --continue-on-collection-errors 2>&1 | tail -1
