#!/usr/bin/env python3
"""Regenerates /verif/MANIFEST.json from the table below (one source of truth)."""
import json, os
HERE = os.path.dirname(os.path.dirname(os.path.abspath(__file__)))
ALL = ["C%02d" % i for i in range(1, 20)]
CHECKS = {
 "C14": dict(
    text="TLC model-checks the mirrored character state machine (spec/YPathParser.tla, one arm per elif of _parse_path) for NoCrash over every token sequence up to the bound and in bracket/collector/search/keyword/quote/regex contexts; every enumerated text is replayed into the real YAMLPath (escaped, unescaped, str, forced separators); seeded random and Unicode texts are recorded from the real parser incl. per-character internal state (sys.settrace) and validated by TLC folding the same step function.",
    note="Trusted: TLC; the harness' exception classification. The model comparison covers printable ASCII; Unicode texts are judged on exception class only. Bounds: quick = 3 tokens over 28 tokens + 4 over a 16-token core + [..] context; thorough = 4 tokens + 6 over a 10-token core + seven contexts.",
    technique="TLA+ step-machine model checked by TLC + S->C replay + C->S per-character trace validation", ref="4/C14"),
 "C08": dict(
    text="TLC enumerates every well-formed segment sequence of the MC_RoundTrip grammar (all segment kinds; key/term text over letters, digits and every escapable character), writes it with the specification's Write operator in both notations and both key styles, and checks the round-trip theorems (text->segments, canonical re-parse in either notation, fixed point, equality) on the mirrored parser and stringifier; each emitted case is replayed into the real YAMLPath where the same relations plus append/pop are evaluated on the real objects; seeded random longer sequences go through Batch_RoundTrip.",
    note="Trusted: TLC; Write as the reading of the documented notation; the segment projection of harness/pathobs.py. Bounds: quick = 2 segments (first over the full vocabulary of ~750 segments) + collector chains of 4 + 1500 random sequences of 2-6; thorough = 3 segments + 20000 random. Two input classes are known findings (F-C08-1, F-C08-2).",
    technique="TLA+ model of writer/parser/stringifier checked by TLC + S->C replay of relations on the real class", ref="4/C08"),
 "C01": dict(
    text="TLC (MC_Query) enumerates every document of the generator machine (maps, sequences, Arrays-of-Hashes, sets, scalars of every type, int/str keys, an anchored scalar with aliases) up to the node bound, derives each document's path vocabulary (key, index, slice, anchor, all nine search operators plain and inverted on '.', on attributes and on descendant paths, *, **; one- and two-segment paths), evaluates the declarative selection Sel of spec/YQuery.tla, checks its design theorems and emits the expected positions; every case is replayed into the real Processor (required query in both notations, exists, optional query when every branch exists) and compared by node identity and order.",
    note="Trusted: TLC; Sel as the reading of README/CHANGES (Appendix A of DESIGN.md); concretise/abstract. Cases that touch a rule the documentation leaves open are tagged informational by the model and never alarm. Bounds: quick = documents of <= 4 nodes, ~6000 documents x ~85 paths (one- and two-segment, reduced vocabulary); thorough = <= 5 nodes with the full vocabulary.",
    technique="TLA+ declarative semantics evaluated by TLC over an enumerated document x path space + S->C replay", ref="4/C01"),
 "C15": dict(
    text="TLC evaluates the selection semantics for every (document, path) of MC_Query; every operator application that could be undefined sits behind a guard returning no match or the YAML-Path-error outcome, so TLC completing the run is the totality theorem within the bounds. Every emitted case, including keyword-search, collector-over-scalars, ill-formed-regex and repeated-traversal families, is replayed into get_nodes(mustexist=True), get_nodes() and exists(); the projection is the outcome class only.",
    note="Trusted: TLC; CPython's exception hierarchy. Bounds as C01 plus the C15 families (7 keywords x 2 x parameter texts, 5 ill-formed regular expressions, collector pairs with + - &). Collector cases whose operands select containers are outside the property's stated domain and skipped.",
    technique="TLA+ totality of the selection model (TLC) + S->C replay judged by exception class", ref="4/C15"),
 "C12": dict(
    text="TLC (MC_Compare) enumerates the complete grid 9 operators x 40 needles x 40 typed haystacks as states, checks the algebraic laws of the documented comparison (trichotomy and duality of ordering on numbers, numeric-vs-text ordering false, prefix/suffix imply contains, textual equality, boolean spelling) and emits the expected answer of every cell; each cell is replayed into Searches.search_matches on values loaded by yamlpath's own loader; inversion is checked as a partition of the candidates by (plain, inverted) query pairs over the MC_Query corpus.",
    note="Trusted: TLC; Matches in spec/YCompare.tla as the reading of CHANGES 3.5/3.6 and the property text; PyLit as the abstraction of ast.literal_eval on the pool's alphabet. Cells the documentation leaves open (bool-as-int, None look-alikes, non-canonical float text, regex outside the modelled fragment) are informational. Regular expressions: literals, '.', postfix '*', '^', '$', escaped literals.",
    technique="TLA+ comparison ladder + laws checked by TLC over the full grid, S->C replay", ref="4/C12"),
 "C13": dict(
    text="TLC (MC_Keywords) builds collections one member at a time - lists of scalars with repeats, Arrays-of-Hashes and Hashes-of-Hashes whose shared attribute is present, absent, repeated or null, and the same list under a key - evaluates max/min/unique/distinct/has_child/name/parent (inverted or not, with and without parameter) with the declarative definitions KwStep of spec/YQuery.tla, checks the set laws (max and !max partition the members, unique and !unique are disjoint, unique within distinct, ...) and emits the expected members; keyword segments after key/index/*/** segments and parent(n) for every depth come from the MC_Query corpus; all cases are replayed into the real Processor.",
    note="Trusted: TLC; KwStep as the reading of C13 / README 'Search Keywords'. Collections of mixed kinds, null attribute values and containers as compared values are informational (documentation silent). Inverted max/min/unique are compared as sets. Bounds: quick = lists <= 3, records <= 3; thorough = lists <= 5, records <= 4.",
    technique="TLA+ declarative keyword semantics + set laws checked by TLC, S->C replay", ref="4/C13"),
 "C02": dict(
    text="Corpus: every matching (document, path) case TLC emits from MC_Query (general documents with an anchored scalar and aliases, one- and two-segment paths), a configuration whose map keys and set members are drawn from the escapable punctuation (. / [ ] ( ) ' \" space ^ $ % and combinations), and the keyword collections of MC_Keywords. On every real, non-virtual result the four relations of the statement are evaluated on the real objects: parent[parentref] is the node, the ancestry chain walks from the root to it, str(result.path) in dot and slash notation re-resolves to exactly that node (once per alias place when named by anchor), and a second evaluation reports equal coordinates.",
    note="Trusted: TLC (enumeration, expected positions); object identity in the loaded ruamel graph. The relations need no oracle; the specification supplies the corpus and which queries match. Bounds as C01 plus 17 punctuation keys / 3 punctuation set members on documents of <= 3 (thorough 4) nodes.",
    technique="TLC-enumerated corpus (TLA+ generator + selection model) replayed; relations checked on real NodeCoords", ref="4/C02"),
 "C03": dict(
    text="spec/YEdit.tla is the plain-data model of set/create/delete (SetScalars with alias closure, DeleteNodes, CreatePath) written as a step function EStep; MC_Edit builds initial documents with the generator machine plus curated ones (repeated equal scalars, values spelled like keys, anchored scalars aliased under keys and inside other sequences) and explores all histories of set / creating set / delete up to the depth bound, checking frame, alias-closure and anchor well-formedness properties on every step (TLC action properties). Every history ending in a set is replayed on ONE Processor; the whole abstract document (values, key order, element order, anchors, aliases) is compared with the model and the document is dumped and re-loaded with yamlpath's strict loader.",
    note="Trusted: TLC; YEdit as the plain-data model; the abstraction of harness/absdoc.py. New values: int and str under the DEFAULT format. Paths selecting containers or touching rules the documentation leaves open are skipped by the model. Bounds: quick = depth 2 over ~170 initial documents (~24k histories); thorough = depth 3.",
    technique="TLA+ edit step machine, histories explored by TLC with frame action properties + S->C history replay", ref="4/C03"),
 "C04": dict(
    text="Same model and exploration as C03 (spec/YEdit.tla DeleteNodes: exactly the matched subtrees disappear, order kept; root deletion refused with the document unchanged); every MC_Edit history ending in a delete - many matches per sequence, nested matches, empty list/map targets, negative indexes, slices, wildcards, searches, matches reached twice through ** - is replayed on one Processor and the whole document compared, then dumped and re-loaded.",
    note="As C03. The refusal of a root deletion is compared by exception class (NoDocumentYAMLPathException) and unchanged document.",
    technique="TLA+ edit step machine, histories explored by TLC + S->C history replay", ref="4/C04"),
 "C09": dict(
    text="Reads are stuttering steps of the YEdit step machine. Purity is bound by replaying every (document, path) case of the MC_Query corpora - all segment kinds, keyword segments and collector expressions with + - & - through get_nodes(mustexist=True), exists() and optional-match on existing paths, with the document snapshotted (abstract table + container identities) before and after. Creation: every MC_Edit history ending in an optional-match set with a missing straight key/index tail (prefix of any length, tail up to 3 segments, padding) is replayed and the whole document compared with CreatePath of the model, then dumped and re-loaded.",
    note="As C01/C03. Padding defaults follow Nodes.build_next_node (modelled). One known finding: collector subtraction over Hashes edits the document (F-C09-1).",
    technique="TLA+ edit step machine (reads = stuttering, CreatePath) + S->C replay with before/after snapshots", ref="4/C09"),
 "C17": dict(
    text="spec/YSave.tla models the file-system state (target, backup, output in {absent, ORIG, STALE, EMPTY, PARTIAL, NEW}) and the save protocols of yaml-set, yaml-merge and eyaml-rotate-keys as a step function with one action per I/O call in program order, at most one injected fault, and the pre-write failure causes; TLC explores it completely and checks PreWriteFailureLeavesNoTrace, OutputNeverReplaces, BackupIsPreimage, SingleFaultSafety, NoBackupWhenUnchanged; three deliberately defective variants must violate them. The real main() functions are run in a scratch directory with recording wrappers; the k-th I/O call is failed for every k and every failure cause is provoked; each recorded trace is validated by TLC (Trace_YSave folds the same step function) and the verdict is taken from bytes and directory listings. Thorough tier: real subprocess under strace with syscall fault injection.",
    note="Trusted: TLC; the wrappers' classification of calls into roles; byte comparison with the pre-image. yaml-merge is exercised with the overwrite target equal to the first input.",
    technique="TLA+ protocol state machine checked exhaustively by TLC + C->S trace validation with fault injection", ref="4/C17"),
 "C19": dict(
    text="spec/YRotate.tla models key rotation as a step machine over value cells (key, plaintext, anchor group, folded) with actions Find/Node/Decrypt/Encrypt/Store/Backup/Write/Exit; TLC checks AllNew, PlaintextKept, OncePerCell, StillShared, Frame, NoSecretNoTouch over every document shape up to the bound (and that the pinned identity-based Store violates AllNew). The real eyaml-rotate-keys main() is run on the emitted and on random documents with a deterministic stand-in eyaml executable; its call log and recording wrappers give the event trace validated by TLC (Trace_YRotate); the rewritten file is decrypted under new and old keys per position, sharing and the non-secret frame are compared, and a file without secrets must be untouched.",
    note="Trusted: TLC; the stand-in cipher; absdoc abstraction for the frame.",
    technique="TLA+ rotation state machine checked by TLC + C->S trace validation of the external-command protocol", ref="4/C19"),
 "C05": dict(
    text="spec/YMerge.tla defines the policy-driven merge (MergeRoot / MergeVal / MergeMaps with the ordered key-insertion rule / plain arrays / Arrays-of-Hashes incl. deep merge by identity key / sets / root insertion by right-hand type, MergeException outcome for the structurally impossible pairs) over document trees. TLC (MC_Merge) enumerates all pairs of generator documents, evaluates the result for the configuration set, checks the laws of C05 (left/right return one side, empty right-hand container is a no-op, left-hand keys keep their order, unique is idempotent, errors exactly for the impossible root pairs) and emits the expected result per group of configurations; MC_MergeAoH does the same for record lists with identity keys. Every (pair, configuration) is replayed into Merger.merge_with and compared on merged data incl. key/element order, or on the error class.",
    note="Trusted: TLC; YMerge as the reading of the yaml-merge usage text and policy enum docstrings (the position of new keys follows the code's buffer rule: documentation silent). Bounds: quick = documents of <= 3 nodes per side (23k pairs) x 21 configurations (one dimension at a time + 6 combinations) + record lists 2x2; thorough = <= 4 nodes, and the full 180-configuration product on <= 3 nodes. Per-path rule/key overrides are not yet exercised (see DESIGN section 8).",
    technique="TLA+ merge semantics + laws checked by TLC over enumerated pairs, S->C replay", ref="4/C05"),
 "C10": dict(
    text="spec/YMerge.tla ResolveAnchors (stop / left / right / rename with the unique-name rule) followed by MergeRoot defines the result; TLC (MC_Merge with anchors) enumerates pairs of documents that define and alias scalar anchors from a shared name pool - equal-name/equal-value, equal-name/different-value and disjoint cases - crossed with the four anchor policies and six merge-policy combinations, and checks the laws of C10 as invariants (stop refuses exactly on a conflict, every name reads one value in the result, left/right pick that side's value). Each case is replayed into Merger.merge_with (the two documents spelled differently in half of the cases); merged data, the anchor relations on the real result, and dump + strict re-load (duplicate or undefined anchors are loader errors) are compared.",
    note="Trusted: TLC; YMerge; yamlpath's strict loader. Where an anchor sits among equal values is not compared (not part of the statement). Bounds: quick = documents <= 3 nodes, one anchor name (+ a list-only family with the names A and A_1 for rename uniqueness); thorough = two names everywhere.",
    technique="TLA+ anchor-resolution + merge semantics with laws checked by TLC, S->C replay incl. dump/reload", ref="4/C10"),
 "C11": dict(
    text="spec/YMerge.tla MergeAt: the targets are what the path selects in the left document (Sel of YQuery); each becomes MergeRoot(target, rhs); a missing straight key/index path is created to hold rhs (CreatePathT of YEdit); a path that matches nothing and cannot be created is a merge error. TLC (MC_MergeAt) enumerates left documents x target paths (root, existing single, several via wildcard/search, missing creatable / non-creatable, one and two segments) x right documents of every root type x six policy combinations and checks the frame law; each case is replayed through args.mergeat and the WHOLE merged document is compared with the model, or the error outcome.",
    note="Trusted: TLC; YMerge/YEdit/YQuery. Dead branches, nested targets, null targets and creation under a Set are informational. The CLI's no-partial-write-out clause is decided by C17's pre-write failure causes.",
    technique="TLA+ targeted-merge semantics + frame law checked by TLC, S->C replay", ref="4/C11"),
 "C18": dict(
    text="spec/YMultiDoc.tla models the three multi-document drivers of yaml-merge (condense_all, merge_across, matrix_merge) and main()'s per-file feeding as a step function with one event per pairwise merge in loop order; documents are modelled as provenance sequences, as marker content under the C05 policies, and as an object graph (by-reference vs copied right-hand documents). TLC checks the output-count/order theorems completely for stream lengths 1..4 x 1..4 x 3 modes and that the pinned by-reference matrix design violates RhsPristine/Terminates. Real runs (library route and yaml_merge.main() in-process, files and stdin) are recorded by wrapping Merger.merge_with and validated by TLC (Trace_YMultiDoc folds the same step function); outputs are judged on number, order and provenance.",
    note="Trusted: TLC; the marker-key reading of provenance; the recorder wrappers.",
    technique="TLA+ driver state machine checked by TLC + C->S trace validation of recorded pairwise merges", ref="4/C18"),
 "C06": dict(
    text="spec/YDiff.tla mirrors differ.py operator by operator (Diff over node tables, both synchronisers, the five AoH and two array modes) and states the predicates of the statement (Truthful, Covers, Accounted, NoChange, DataEq / DataEqUnordered); TLC (MC_Diff) enumerates pairs (identical; derived from the left document by one or two insert/delete/replace/retype/swap edits; unrelated; curated AoH) x all modes and checks the theorems on the repaired differ (positional => Truthful and Covers; every mode => NoChange <=> data-equal and Accounted; reflexivity); the pinned mirror must violate them. Every emitted pair is run through the real Differ and the SAME predicates are evaluated on the real report against the real documents; seeded random larger pairs are recorded and validated by TLC (Trace_Diff).",
    note="Trusted: TLC; the predicates as the reading of the statement; absdoc. Synchronised modes have no path clause in the statement (a wrong index there is drift only); key/deep over lists with non-Hash members are informational. Quick replays every third pair of the large configuration (all pairs are enumerated and judged by TLC).",
    technique="TLA+ mirrored differ + statement predicates checked by TLC; S->C replay evaluating the same predicates on real reports; C->S Trace_Diff", ref="4/C06"),
}
NA_REASON = "check not built yet in this round (specification family under construction; see DESIGN.md section 9)"
def main():
    checks = []
    for pid in ALL:
        if pid not in CHECKS: continue
        c = CHECKS[pid]
        checks.append({
            "property_id": pid,
            "quick_cmd": "./check %s --tier quick" % pid,
            "thorough_cmd": "./check %s --tier thorough" % pid,
            "evidence_file": "/verif/evidence/%s.json" % pid,
            "replay_cmd_template": "./check %s --replay {path}" % pid,
            "engine": "tlc+harness",
            "level_claimed": {"category": "model_checking", "text": c["text"], "design_ref": "DESIGN.md " + c["ref"]},
            "level_note": c["note"],
            "technique": c["technique"],
        })
    man = {
        "version": 1,
        "setup_cmd": "/venv/bin/python -m compileall -q harness check >/dev/null && tlc -h >/dev/null 2>&1; true",
        "hooks": {"guard": "YAMLPATH_VERIF", "enable": "no source hooks: the harness observes through the public API, sys.settrace, namespace wrappers and strace; ./check sets YAMLPATH_VERIF=1 for its own wrappers",
                  "baseline_off_cmd": "cd /repo && /venv/bin/python -m pytest -ra -q -p no:cacheprovider --timeout=900 --continue-on-collection-errors",
                  "source_commits": [], "add_only": True},
        "engines": [{"name": "tlc+harness", "path": "/verif/check", "serves_properties": sorted(CHECKS),
                     "kind_free_text": "TLA+ specification family in /verif/spec checked with TLC 1.8; Python harness in /verif/harness replays TLC-emitted cases into yamlpath and validates recorded executions with TLC"}],
        "checks": checks,
        "notes": "Genuine defects repaired by fix: commits in /repo and defects recorded as known findings are listed in /verif/known_findings.json and DESIGN.md section 6.",
        "not_applicable": [{"property_id": p, "reason": NA_REASON} for p in ALL if p not in CHECKS],
    }
    with open(os.path.join(HERE, "MANIFEST.json"), "w") as fh:
        json.dump(man, fh, indent=1)
    print("checks:", len(checks), "not_applicable:", len(man["not_applicable"]))
if __name__ == "__main__":
    main()
