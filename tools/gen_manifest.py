#!/usr/bin/env python3
"""Regenerates /verif/MANIFEST.json from the table below (one source of truth)."""
import json, os
HERE = os.path.dirname(os.path.dirname(os.path.abspath(__file__)))
ALL = ["C%02d" % i for i in range(1, 20)]
CHECKS = {
 "C14": dict(
    text="TLC model-checks the mirrored character state machine (spec/YPathParser.tla, one arm per elif of _parse_path) for NoCrash over every token sequence up to the bound and in bracket/collector/search/keyword/quote/regex contexts; every enumerated text is replayed into the real YAMLPath (escaped, unescaped, str, forced separators); seeded random and Unicode texts are recorded from the real parser incl. per-character internal state (sys.settrace) and validated by TLC folding the same step function.",
    note="Trusted: TLC; the harness' exception classification. The model comparison covers printable ASCII; Unicode texts are judged on exception class only. Bounds: quick = 3 tokens over 28 tokens + 4 over a 16-token core + [..] context; thorough = 4 tokens + 6 over a 10-token core + seven contexts.",
    technique="TLA+ step-machine model checked by TLC + S->C replay + C->S per-character trace validation", ref="4/C14"),
}
NA_REASON = "check not built yet in this round (specification family under construction; see DESIGN.md section 9)"
def main():
    checks = []
    for pid in ALL:
        if pid not in CHECKS: continue
        c = CHECKS[pid]
        checks.append({
            "property_id": pid,
            "quick_cmd": "./check %s --tier quick" % pid,
            "thorough_cmd": "./check %s --tier thorough" % pid,
            "evidence_file": "/verif/evidence/%s.json" % pid,
            "replay_cmd_template": "./check %s --replay {path}" % pid,
            "engine": "tlc+harness",
            "level_claimed": {"category": "model_checking", "text": c["text"], "design_ref": "DESIGN.md " + c["ref"]},
            "level_note": c["note"],
            "technique": c["technique"],
        })
    man = {
        "version": 1,
        "setup_cmd": "/venv/bin/python -m compileall -q harness check >/dev/null && tlc -h >/dev/null 2>&1; true",
        "hooks": {"guard": "YAMLPATH_VERIF", "enable": "no source hooks: the harness observes through the public API, sys.settrace, namespace wrappers and strace; ./check sets YAMLPATH_VERIF=1 for its own wrappers",
                  "baseline_off_cmd": "cd /repo && /venv/bin/python -m pytest -ra -q -p no:cacheprovider --timeout=900 --continue-on-collection-errors",
                  "source_commits": [], "add_only": True},
        "engines": [{"name": "tlc+harness", "path": "/verif/check", "serves_properties": sorted(CHECKS),
                     "kind_free_text": "TLA+ specification family in /verif/spec checked with TLC 1.8; Python harness in /verif/harness replays TLC-emitted cases into yamlpath and validates recorded executions with TLC"}],
        "checks": checks,
        "notes": "Genuine defects repaired by fix: commits in /repo and defects recorded as known findings are listed in /verif/known_findings.json and DESIGN.md section 6.",
        "not_applicable": [{"property_id": p, "reason": NA_REASON} for p in ALL if p not in CHECKS],
    }
    with open(os.path.join(HERE, "MANIFEST.json"), "w") as fh:
        json.dump(man, fh, indent=1)
    print("checks:", len(checks), "not_applicable:", len(man["not_applicable"]))
if __name__ == "__main__":
    main()
