#!/usr/bin/env python3
"""Copy a sub-agent's deliverables (/tmp/wt2/out/<pid>/m3.diff ...) into seeded/<pid>-m<n>/ (patch.diff, demo.py, notes.md)."""
import os, shutil, sys
for pid in sys.argv[1:]:
    src = "/tmp/wt2/out/" + pid
    for m in ("m3", "m4"):
        if not os.path.exists(os.path.join(src, m + ".diff")):
            print(pid, m, "missing"); continue
        d = "/verif/seeded/%s-%s" % (pid, m)
        os.makedirs(d, exist_ok=True)
        shutil.copy(os.path.join(src, m + ".diff"), os.path.join(d, "patch.diff"))
        shutil.copy(os.path.join(src, m + "_demo.py"), os.path.join(d, "demo.py"))
        shutil.copy(os.path.join(src, m + ".md"), os.path.join(d, "notes.md"))
        print("installed", d)
