#!/usr/bin/env python3
"""Install file-targeted round-3 deliverables (/tmp/wt4/out/<F>/x<k>.*) as seeded/<Cnn>-m<next>/ by the property named on the first line of x<k>.md."""
import os, re, shutil, sys
for grp in sys.argv[1:]:
    src = ("/tmp/wt5/out/" if grp.startswith("T") else "/tmp/wt4/out/") + grp
    for k in (1, 2, 3):
        md = os.path.join(src, "x%d.md" % k)
        if not os.path.exists(md):
            print(grp, k, "missing"); continue
        first = open(md).read().strip().split("\n")[0]
        m = re.search(r"C\d\d", first)
        if not m:
            print(grp, k, "no property line:", first[:60]); continue
        pid = m.group(0)
        n = 1
        while os.path.exists("/verif/seeded/%s-m%d" % (pid, n)):
            n += 1
        d = "/verif/seeded/%s-m%d" % (pid, n)
        os.makedirs(d)
        shutil.copy(os.path.join(src, "x%d.diff" % k), os.path.join(d, "patch.diff"))
        shutil.copy(os.path.join(src, "x%d_demo.py" % k), os.path.join(d, "demo.py"))
        open(os.path.join(d, "notes.md"), "w").write(("(round 4, themed: %s)\n" if grp.startswith("T") else "(round 3, file-targeted: %s)\n") % grp + open(md).read())
        print(os.path.basename(d), "<-", grp, "x%d" % k)
