#!/usr/bin/env python3
"""Run the quick check of each seeded change against a scratch worktree of /repo (never /repo itself).

usage: tools/mutant_sweep.py [seeded-dir-name ...]      (default: all that have no 'detected' entry yet)
Writes seeded/<name>/meta.json.
"""
import json, os, subprocess, sys, re, shutil, tempfile

VERIF = os.path.dirname(os.path.dirname(os.path.abspath(__file__)))
SEEDED = os.path.join(VERIF, "seeded")


def sh(cmd, **kw):
    return subprocess.run(cmd, shell=True, stdout=subprocess.PIPE, stderr=subprocess.STDOUT, text=True, **kw)


def main():
    names = sys.argv[1:] or sorted(n for n in os.listdir(SEEDED) if re.match(r"C\d\d-m\d", n))
    wt = tempfile.mkdtemp(prefix="mutrepo.", dir="/tmp")
    os.rmdir(wt)
    sh("git -C /repo worktree add -q --detach %s HEAD" % wt)
    # the checks run from a snapshot of the COMMITTED /verif, so that edits in progress in /verif cannot disturb a sweep
    snap = tempfile.mkdtemp(prefix="mutverif.", dir="/tmp")
    sh("git -C %s archive HEAD | tar -x -C %s" % (VERIF, snap))
    try:
        for name in names:
            d = os.path.join(SEEDED, name)
            pid = name.split("-")[0]
            mp = os.path.join(d, "meta.json")
            meta = json.load(open(mp)) if os.path.exists(mp) else {}
            meta.setdefault("property", pid)
            notes = open(os.path.join(d, "notes.md")).read() if os.path.exists(os.path.join(d, "notes.md")) else ""
            meta.setdefault("needs_to_manifest", notes.strip()[:1500])
            patch = os.path.join(d, "patch.diff")
            sh("git -C %s checkout -q -- . && git -C %s clean -fdq" % (wt, wt))
            demo = os.path.join(d, "demo.py")
            r0 = sh("cd %s && PYTHONPATH=%s timeout 300 /venv/bin/python %s" % (wt, wt, demo))
            ap = sh("git -C %s apply %s" % (wt, patch))
            meta["patch_applies_to_repo_head"] = ap.returncode == 0
            if ap.returncode != 0:
                meta["note"] = "patch.diff no longer applies to /repo HEAD (a fix: commit touched the same lines): needs porting"
                json.dump(meta, open(mp, "w"), indent=1)
                print(name, "DOES NOT APPLY")
                continue
            r1 = sh("cd %s && PYTHONPATH=%s timeout 300 /venv/bin/python %s" % (wt, wt, demo))
            suite = sh("cd %s && PYTHONPATH=%s /venv/bin/python -m pytest -q -p no:cacheprovider --timeout=900 --continue-on-collection-errors 2>&1 | tail -1" % (wt, wt))
            meta["confirmed"] = {"demo_rc_without_change": r0.returncode, "demo_rc_with_change": r1.returncode,
                                 "suite_with_change": suite.stdout.strip().split(" in ")[0]}
            env = dict(os.environ, VERIF_REPO=wt)
            chk = subprocess.run(["./check", pid], cwd=snap, env=env, stdout=subprocess.PIPE, stderr=subprocess.STDOUT, text=True)
            if chk.returncode not in (0, 1):
                meta["machinery_failure_tail"] = chk.stdout[-600:]
            sigs = re.findall(r"^  sig=(\S+)", chk.stdout, re.M)
            meta["ran"] = "VERIF_REPO=<scratch worktree of /repo HEAD + patch.diff> ./check %s --tier quick  (from a snapshot of /verif HEAD %s)" % (
                pid, sh("git -C %s log --format=%%h -n1" % VERIF).stdout.strip())
            meta["detected"] = {"check": pid, "exit": chk.returncode, "violation_lines": chk.stdout.count("\nVIOLATION") + chk.stdout.startswith("VIOLATION"),
                                "signatures": sigs[:6]}
            json.dump(meta, open(mp, "w"), indent=1)
            print(name, "demo %d->%d" % (r0.returncode, r1.returncode), "|", meta["confirmed"]["suite_with_change"], "| check rc", chk.returncode, sigs[:2])
            sys.stdout.flush()
    finally:
        sh("git -C /repo worktree remove --force %s" % wt)
        shutil.rmtree(wt, ignore_errors=True)
        shutil.rmtree(snap, ignore_errors=True)


if __name__ == "__main__":
    main()
