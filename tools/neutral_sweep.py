#!/usr/bin/env python3
"""Run checks against BEHAVIOUR-PRESERVING refactorings of /repo (seeded/neutral/<name>/patch.diff): every check must stay silent.

usage: tools/neutral_sweep.py [name ...]     Writes seeded/neutral/<name>/meta.json.
Like mutant_sweep: scratch worktree of /repo HEAD + patch, VERIF_REPO pointing at it, checks from a snapshot of committed /verif.
"""
import json, os, subprocess, sys, shutil, tempfile

VERIF = os.path.dirname(os.path.dirname(os.path.abspath(__file__)))
NEUTRAL = os.path.join(VERIF, "seeded", "neutral")
CHECKS = {"N1": ["C14", "C08", "C02"], "N2": ["C01", "C02", "C03", "C04", "C09", "C15", "C13"],
          "N3": ["C05", "C10", "C11", "C18"], "N4": ["C06", "C12", "C13", "C15"], "N5": ["C16", "C17", "C07", "C19", "C18"]}


def sh(cmd, **kw):
    return subprocess.run(cmd, shell=True, stdout=subprocess.PIPE, stderr=subprocess.STDOUT, text=True, **kw)


def main():
    names = sys.argv[1:] or sorted(os.listdir(NEUTRAL))
    wt = tempfile.mkdtemp(prefix="neurepo.", dir="/tmp")
    os.rmdir(wt)
    sh("git -C /repo worktree add -q --detach %s HEAD" % wt)
    snap = tempfile.mkdtemp(prefix="neuverif.", dir="/tmp")
    sh("git -C %s archive HEAD | tar -x -C %s" % (VERIF, snap))
    try:
        for name in names:
            d = os.path.join(NEUTRAL, name)
            sh("git -C %s checkout -q -- . && git -C %s clean -fdq" % (wt, wt))
            ap = sh("git -C %s apply %s" % (wt, os.path.join(d, "patch.diff")))
            meta = {"kind": "behaviour-preserving refactoring", "applies": ap.returncode == 0, "checks": {}}
            if ap.returncode == 0:
                suite = sh("cd %s && PYTHONPATH=%s /venv/bin/python -m pytest -q -p no:cacheprovider --timeout=900 --continue-on-collection-errors 2>&1 | tail -1" % (wt, wt))
                meta["suite_with_change"] = suite.stdout.strip().split(" in ")[0]
                for pid in CHECKS[name.split("-")[0]]:
                    chk = subprocess.run(["./check", pid], cwd=snap, env=dict(os.environ, VERIF_REPO=wt), stdout=subprocess.PIPE, stderr=subprocess.STDOUT, text=True)
                    meta["checks"][pid] = {"exit": chk.returncode, "tail": chk.stdout[-400:] if chk.returncode else ""}
                    print(name, pid, "rc", chk.returncode, "" if chk.returncode == 0 else chk.stdout[-300:].replace("\n", " | "))
                    sys.stdout.flush()
            else:
                print(name, "DOES NOT APPLY")
            json.dump(meta, open(os.path.join(d, "meta.json"), "w"), indent=1)
    finally:
        sh("git -C /repo worktree remove --force %s" % wt)
        shutil.rmtree(wt, ignore_errors=True)
        shutil.rmtree(snap, ignore_errors=True)


if __name__ == "__main__":
    main()
