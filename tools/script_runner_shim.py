"""A stand-in for pytest-console-scripts' `script_runner` fixture (absent in this sandbox).

Not part of the registered checks: it lets the repository's own CLI tests (the 313 that error in the
baseline for want of the fixture) run as an extra regression suite when judging a `fix:` commit:

  cd <tree> && PYTHONPATH=<tree>:/verif/tools /venv/bin/python -m pytest -q -p no:cacheprovider \
      -p script_runner_shim tests/test_commands_yaml_paths.py
"""
import io
import os
import subprocess
import sys

import pytest


class _Result:
    def __init__(self, rc, out, err):
        self.returncode, self.stdout, self.stderr = rc, out, err
        self.success = rc == 0


class _Runner:
    def run(self, *args, **kw):
        cmd = list(args[0]) if len(args) == 1 and isinstance(args[0], (list, tuple)) else list(args)
        stdin = kw.pop("stdin", None)
        data = None
        if stdin is not None:
            data = stdin.read() if hasattr(stdin, "read") else stdin
        env = dict(kw.pop("env", None) or os.environ)
        env["PATH"] = os.path.dirname(sys.executable) + os.pathsep + env.get("PATH", "")
        mod = "yamlpath.commands." + os.path.basename(cmd[0]).replace("-", "_")
        argv = [sys.executable, "-c",
                "import sys; sys.argv[0]=%r; from %s import main; sys.exit(main())" % (cmd[0], mod)] + [str(a) for a in cmd[1:]]
        p = subprocess.run(argv, input=data, stdout=subprocess.PIPE, stderr=subprocess.PIPE, text=True, env=env,
                           cwd=kw.pop("cwd", None), stdin=None if data is not None else subprocess.DEVNULL)
        return _Result(p.returncode, p.stdout, p.stderr)


@pytest.fixture
def script_runner():
    return _Runner()
