#!/bin/bash
# usage: tools/tlaeval.sh <Module to extend> '<TLA+ expression>'   -- prints the value (debug aid)
mod=$1; expr=$2
d=$(mktemp -d /tmp/tlaeval.XXXX)
cp /verif/spec/*.tla $d/
cat > $d/Eval.tla <<EOT
---- MODULE Eval ----
EXTENDS $mod
ASSUME PrintT(<<"EVAL", $expr>>)
====
EOT
printf "CONSTANTS\n GuardedPop = TRUE\n RegexFixed = TRUE\n" > $d/Eval.cfg
(cd $d && tlc -metadir $d/m -config Eval.cfg Eval.tla 2>&1 | grep -A30 "EVAL\|rror" | grep -v "^Finished\|^Starting")
rm -rf $d
