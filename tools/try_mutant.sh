#!/bin/bash
# usage: tools/try_mutant.sh <patch.diff> <property id> [more ids...]
# Applies a seeded change to /repo, runs the quick checks, always reverts.
set -u
patch=$(readlink -f "$1"); shift
cd /repo || exit 2
if ! git diff --quiet; then echo "/repo has uncommitted changes"; exit 2; fi
git apply "$patch" || { echo "patch does not apply"; exit 2; }
trap 'git -C /repo checkout -- . ; find /repo -name __pycache__ -prune -exec rm -rf {} + 2>/dev/null' EXIT
cd /verif
for id in "$@"; do
  out=$(./check "$id" ${TIER:+--tier $TIER} 2>&1); rc=$?
  echo "== $id rc=$rc :: $(echo "$out" | grep -c '^VIOLATION') VIOLATION lines"
  echo "$out" | grep -E "^VIOLATION|^  sig=|MACHINERY" | head -${SHOW:-6}
done
